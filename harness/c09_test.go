// C09 — Non-disruptive actions run once per match; counters add up exactly.
package verifharness

import (
	"fmt"
	"sort"
	"strconv"
	"strings"
	"testing"

	"pgregory.net/rapid"
)

var c09Names = []string{"a", "a", "b", "c", "A", "ab"}
var c09Values = []string{"x1", "x2", "y", "xx", "Xx", "X", "", "zxz", " x "}

// accInc: rule id -> constant increment of tx.acc (only on non-chain, non-multiMatch rules)
type C09Case struct {
	FlowCase
	AccInc map[int]int `json:"acc_inc,omitempty"`
	// Recycled: the same request is served once before on the same WAF (pooled transaction object reused)
	Recycled bool `json:"recycled,omitempty"`
	// Captures: a capturing @rx rule whose actions read TX.1 / TX.2 of the match at hand
	Captures bool `json:"captures,omitempty"`
}

func genC09Actions(t *rapid.T, r *Rule, allowAcc bool, accInc map[int]int, topID int) {
	n := rapid.IntRange(1, 3).Draw(t, "nacts")
	for i := 0; i < n; i++ {
		switch rapid.IntRange(0, 12).Draw(t, "act") {
		case 10:
			// the operand names a variable that does not exist (either spelling of the collection): nothing is added
			r.Acts = append(r.Acts, fmt.Sprintf("setvar:tx.score=+%%{%s.nosuch%d}", rapid.SampledFrom([]string{"tx", "TX", "Tx"}).Draw(t, "undefcoll"), rapid.IntRange(1, 2).Draw(t, "undefn")))
		case 11:
			// %{rule.msg}: the message of THIS rule (none here unless the rule gets a literal one below)
			r.Acts = append(r.Acts, "setvar:tx.lastmsg=%{rule.msg}")
			if rapid.Bool().Draw(t, "litmsg") {
				r.Acts = append(r.Acts, "msg:'literal message'")
			}
		case 12:
			// the whole name comes from a macro (tx.cname holds "dyn")
			r.Acts = append(r.Acts, rapid.SampledFrom([]string{"setvar:tx.%{tx.cname}=+1", "setvar:tx.%{tx.cname}=+2", "setvar:!tx.%{tx.cname}", "setvar:tx.%{tx.cname}=7"}).Draw(t, "dynkey"))
		case 0, 1:
			r.Acts = append(r.Acts, fmt.Sprintf("setvar:tx.score=+%d", rapid.IntRange(1, 5).Draw(t, "inc")))
		case 2:
			r.Acts = append(r.Acts, fmt.Sprintf("setvar:tx.score=-%d", rapid.IntRange(1, 3).Draw(t, "dec")))
		case 3:
			// weight taken from another variable; w1 may be negative (a credit), so the expanded operand carries its own sign
			r.Acts = append(r.Acts, fmt.Sprintf("setvar:tx.score=%s%%{tx.w%d}", rapid.SampledFrom([]string{"+", "+", "-"}).Draw(t, "wsign"), rapid.IntRange(1, 2).Draw(t, "w")))
		case 4:
			r.Acts = append(r.Acts, "setvar:tx.hit_%{rule.id}=+1")
		case 5:
			r.Acts = append(r.Acts, "setvar:'tx.n_%{MATCHED_VAR_NAME}=+1'")
		case 6:
			r.Acts = append(r.Acts, fmt.Sprintf("setvar:tx.flag%d=%s", rapid.IntRange(1, 2).Draw(t, "f"),
				rapid.SampledFrom([]string{"1", "7", "%{rule.id}", "%{tx.w2}", "%{REQUEST_METHOD}", "v"}).Draw(t, "fv")))
		case 7:
			r.Acts = append(r.Acts, fmt.Sprintf("setvar:!tx.flag%d", rapid.IntRange(1, 2).Draw(t, "f")))
		case 8:
			r.Acts = append(r.Acts, fmt.Sprintf("setvar:TX.Flag%d", rapid.IntRange(1, 2).Draw(t, "f")))
		case 9:
			if allowAcc {
				inc := rapid.IntRange(1, 4).Draw(t, "accinc")
				if _, dup := accInc[topID]; !dup {
					accInc[topID] = inc
					r.Acts = append(r.Acts, fmt.Sprintf("setvar:tx.acc=+%d", inc))
				}
			}
		}
	}
	if rapid.IntRange(0, 3).Draw(t, "sev") == 0 {
		r.Acts = append(r.Acts, "severity:"+rapid.SampledFrom([]string{"0", "2", "3", "5", "7", "CRITICAL", "'notice'", "warning"}).Draw(t, "sevv"))
	}
}

func genC09Match(t *rapid.T, r *Rule) {
	switch rapid.IntRange(0, 6).Draw(t, "tgt") {
	case 0, 1:
		r.Targets = []Target{{Var: "ARGS_GET"}}
	case 2, 3:
		r.Targets = []Target{{Var: "ARGS_GET", Key: rapid.SampledFrom(c09Names).Draw(t, "key")}}
	case 4:
		r.Targets = []Target{{Var: "ARGS_GET"}, {Var: "REQUEST_HEADERS", Key: "h"}}
	case 5:
		r.Targets = []Target{{Var: "ARGS_GET", Count: true}}
		r.Op, r.Arg = "ge", strconv.Itoa(rapid.IntRange(0, 4).Draw(t, "cnt"))
		return
	case 6:
		r.Targets = []Target{{Var: "ARGS_GET_NAMES"}}
	}
	r.Op = rapid.SampledFrom([]string{"contains", "contains", "streq", "beginsWith", "rx", "pm"}).Draw(t, "op")
	r.Arg = rapid.SampledFrom([]string{"x", "x", "X", "a", "x1", "y"}).Draw(t, "arg")
	if rapid.IntRange(0, 5).Draw(t, "neg") == 0 {
		r.OpNeg = true
	}
}

func genC09(t *rapid.T) *C09Case {
	c := &C09Case{AccInc: map[int]int{}}
	c.Cfg.Engine = rapid.SampledFrom([]string{"On", "On", "On", "DetectionOnly"}).Draw(t, "engine")
	w1, w2 := rapid.IntRange(-3, 5).Draw(t, "w1"), rapid.IntRange(2, 9).Draw(t, "w2")
	items := []Item{{Rule: &Rule{ID: 1, Phase: 1, SecAction: true, Disr: "pass",
		Acts: []string{fmt.Sprintf("setvar:tx.w1=%d", w1), fmt.Sprintf("setvar:tx.w2=%d", w2), "setvar:tx.cname=dyn"}}}}
	n := rapid.IntRange(2, 7).Draw(t, "nrules")
	id := 300
	for i := 0; i < n; i++ {
		id++
		r := &Rule{ID: id, Phase: rapid.IntRange(1, 5).Draw(t, "phase"), Disr: "pass"}
		kind := rapid.IntRange(0, 9).Draw(t, "kind")
		switch {
		case kind <= 5: // plain scoring rule
			genC09Match(t, r)
			if rapid.IntRange(0, 4).Draw(t, "multi") == 0 && len(r.Targets) > 0 && !r.Targets[0].Count {
				r.Multi = true
				// including transformations that may hand back what they were given (the length of "1", a "%" that
				// starts no escape, the encoding of nothing): an unchanged value is not another matched value
				r.Trans = rapid.SliceOfN(rapid.SampledFrom([]string{"lowercase", "trim", "removeNulls", "length", "urlDecode", "hexEncode"}), 1, 2).Draw(t, "trans")
			}
			genC09Actions(t, r, !r.Multi, c.AccInc, r.ID)
			if rapid.IntRange(0, 7).Draw(t, "plainskip") == 0 {
				r.Skip = rapid.IntRange(1, 2).Draw(t, "pskipn")
			}
			if !r.Multi && !strings.Contains(strings.Join(r.Acts, ","), "{rule.msg}") && rapid.IntRange(0, 3).Draw(t, "msg") == 0 {
				r.Acts = append(r.Acts, rapid.SampledFrom([]string{"msg:'hit %{MATCHED_VAR} by %{rule.id}'", "msg:'w=%{tx.w1} at %{MATCHED_VAR_NAME}'", "logdata:'%{MATCHED_VAR}'"}).Draw(t, "msgv"))
			}
		case kind <= 7: // chain
			genC09Match(t, r)
			genC09Actions(t, r, false, c.AccInc, r.ID)
			nl := rapid.IntRange(1, 2).Draw(t, "links")
			for j := 0; j < nl; j++ {
				l := &Rule{}
				genC09Match(t, l)
				genC09Actions(t, l, false, c.AccInc, r.ID)
				r.Chain = append(r.Chain, l)
			}
			if rapid.IntRange(0, 3).Draw(t, "chaindeny") == 0 {
				r.Disr = "deny"
			} else if rapid.IntRange(0, 2).Draw(t, "chainskip") == 0 {
				// the starter's flow action: once per completed chain, in every phase, interrupted or not
				r.Skip = rapid.IntRange(1, 2).Draw(t, "skipn")
			}
		case kind == 8: // SecAction
			r.SecAction = true
			genC09Actions(t, r, true, c.AccInc, r.ID)
			// MATCHED_VAR* inside a SecAction is undocumented (there is no matched variable): not generated
			var keep []string
			for _, a := range r.Acts {
				if !strings.Contains(a, "MATCHED_VAR") {
					keep = append(keep, a)
				}
			}
			r.Acts = keep
		default: // threshold rule as anomaly-scoring rule sets use
			r.Targets = []Target{{Var: "TX", Key: rapid.SampledFrom([]string{"score", "SCORE", "acc"}).Draw(t, "thrkey")}}
			r.Op = rapid.SampledFrom([]string{"ge", "gt", "eq", "lt"}).Draw(t, "throp")
			r.Arg = strconv.Itoa(rapid.IntRange(0, 12).Draw(t, "thr"))
			r.Disr = rapid.SampledFrom([]string{"deny", "pass"}).Draw(t, "thrdisr")
		}
		items = append(items, Item{Rule: r})
	}
	if rapid.IntRange(0, 3).Draw(t, "capture") == 0 {
		// a capturing rule over the values of one name (stored in request order), whose group takes part in the match for
		// some values only, and actions that read the capture of the match at hand
		id++
		r := &Rule{ID: id, Phase: rapid.IntRange(1, 2).Draw(t, "capphase"), Disr: "pass", Capture: true,
			Targets: []Target{{Var: "ARGS_GET", Key: "k"}}, // a name of its own: its values are stored in request order
			Op:      "rx", Arg: rapid.SampledFrom([]string{"^(?:x(\\d)|y|X)$", "^x(\\d)?", "(x)|(y)", "^(z)?x"}).Draw(t, "cappat"),
			Acts: []string{"setvar:tx.lastcap=%{tx.1}", rapid.SampledFrom([]string{"setvar:tx.cap0=%{tx.0}", "setvar:tx.cap2=%{tx.2}"}).Draw(t, "capact")}}
		pos := rapid.IntRange(1, len(items)).Draw(t, "cappos")
		items = append(items[:pos], append([]Item{{Rule: r}}, items[pos:]...)...)
		c.Captures = true
	}
	c.RS.Items = items
	c.RS.Pre = c.Cfg.PreLines()
	c.Recycled = rapid.IntRange(0, 2).Draw(t, "recycled") == 0
	c.Req = Req{Method: "GET", Path: "/p", Headers: []KV{{"h", rapid.SampledFrom(c09Values).Draw(t, "hv")}}}
	na := rapid.IntRange(0, 6).Draw(t, "nargs")
	for i := 0; i < na; i++ {
		c.Req.Query = append(c.Req.Query, KV{rapid.SampledFrom(c09Names).Draw(t, "an"), rapid.SampledFrom(c09Values).Draw(t, "av")})
	}
	if c.Captures {
		// the values the capturing rule looks at, under a name nothing else uses
		for i, n := 0, rapid.IntRange(1, 4).Draw(t, "ncap"); i < n; i++ {
			pos := rapid.IntRange(0, len(c.Req.Query)).Draw(t, "capargpos")
			kv := KV{"k", rapid.SampledFrom([]string{"x1", "x2", "y", "X", "x", "zx", "xy", "q"}).Draw(t, "capval")}
			c.Req.Query = append(c.Req.Query[:pos], append([]KV{kv}, c.Req.Query[pos:]...)...)
		}
	}
	return c
}

func dedupTriples(ts []Triple) []Triple {
	seen := map[Triple]bool{}
	var out []Triple
	for _, t := range ts {
		if !seen[t] {
			seen[t] = true
			out = append(out, t)
		}
	}
	return out
}

func describeTX(m map[string]string) string {
	var ks []string
	for k := range m {
		ks = append(ks, k)
	}
	sort.Strings(ks)
	var sb strings.Builder
	for _, k := range ks {
		fmt.Fprintf(&sb, "%s=%q ", k, m[k])
	}
	return sb.String()
}

func checkC09(c *C09Case) Result {
	res := Result{}
	conf := c.RS.Render()
	negW1 := strings.Contains(conf, "setvar:tx.w1=-")
	w, err := newWAF(conf)
	if err != nil {
		res.Fail = failf("generated configuration rejected: %v\n%s", err, conf)
		return res
	}
	defer closeWAF(w)
	if c.Recycled {
		// the counters are those of THIS transaction: the same request has just been served (and closed) on the
		// same WAF, so the transaction under test runs on a recycled object
		if _, f := runCanonical(w, &c.Req); f != nil {
			res.Fail = f
			return res
		}
		res.Labels = append(res.Labels, "on-recycled-transaction")
	}
	if c.Captures {
		res.Labels = append(res.Labels, "captures-read-by-actions")
	}
	if strings.Contains(conf, "tx.%{tx.cname}") {
		res.Labels = append(res.Labels, "setvar-name-from-a-macro")
	}
	got, f := runCanonical(w, &c.Req)
	if f != nil {
		res.Fail = f
		return res
	}
	want, m := refEvalM(&c.RS, &c.Req, c.Cfg)
	ctx := fmt.Sprintf("\nconfig:\n%srequest: %s h=%q\nengine fired %v tx: %s\nmodel  fired %v tx: %s", conf, c.Req.URI(), c.Req.Headers[0].V,
		firedIDs(got.Fired), describeTX(got.TX), firedIDs(want.Fired), describeTX(want.TX))
	rules := map[int]*Rule{}
	for _, r := range c.RS.Rules() {
		rules[r.ID] = r
	}
	// multiMatch rules: compare match data as sets (a transformation may report a change without one)
	gf := append([]Fired(nil), got.Fired...)
	wf := append([]Fired(nil), want.Fired...)
	for i := range gf {
		if r := rules[gf[i].ID]; false && r != nil {
			gf[i].Data = dedupTriples(gf[i].Data)
		}
	}
	for i := range wf {
		if r := rules[wf[i].ID]; false && r != nil {
			wf[i].Data = dedupTriples(wf[i].Data)
		}
	}
	isCount := func(id int, t Triple) bool {
		r := rules[id]
		if r == nil {
			return false
		}
		for _, rr := range append([]*Rule{r}, r.Chain...) {
			for _, tg := range rr.Targets {
				if tg.Count && tg.Var == t.Var {
					return true
				}
			}
		}
		return false
	}
	asSet := func(id int) bool { return false } // multiMatch rules too: an unchanged value is not evaluated twice
	if d := diffFiredSets(gf, wf, isCount, asSet); d != "" {
		res.Fail = failf("%s%s", d, ctx)
		return res
	}
	if !intrEq(got.Intr, want.Intr) {
		res.Fail = failf("interruption: got %v want %v%s", got.Intr, want.Intr, ctx)
		return res
	}
	// final TX map
	for k, wv := range want.TX {
		if gv, ok := got.TX[k]; !ok || gv != wv {
			res.Fail = failf("TX.%s: engine %q (present=%v), model %q%s", k, gv, ok, wv, ctx)
			return res
		}
	}
	for k, gv := range got.TX {
		if _, ok := want.TX[k]; !ok {
			res.Fail = failf("TX.%s=%q exists in the engine but not in the model%s", k, gv, ctx)
			return res
		}
	}
	if got.Highest != want.Highest {
		res.Fail = failf("HIGHEST_SEVERITY: engine %s model %s%s", got.Highest, want.Highest, ctx)
		return res
	}
	// accounting identity from OBSERVED match counts (independent of the model's counts)
	if len(c.AccInc) > 0 {
		sum := 0
		for _, fr := range got.Fired {
			if inc, ok := c.AccInc[fr.ID]; ok {
				sum += inc * len(fr.Data)
			}
		}
		gv := got.TX["acc"]
		if gv == "" {
			gv = "0"
		}
		if gv != strconv.Itoa(sum) {
			res.Fail = failf("tx.acc = %s but sum over fired rules of increment x observed matches = %d%s", gv, sum, ctx)
			return res
		}
	}
	// message / logdata of single-match rules
	for i, fr := range got.Fired {
		r := rules[fr.ID]
		if r == nil || len(r.Chain) > 0 || r.SecAction || len(fr.Data) != 1 {
			continue
		}
		for _, a := range r.Acts {
			name, val, _ := strings.Cut(a, ":")
			if name != "msg" && name != "logdata" {
				continue
			}
			m.curTop = r
			m.matchedVar = fr.Data[0].Val
			m.matchedVarName = fr.Data[0].Var
			if fr.Data[0].Key != "" {
				m.matchedVarName += ":" + fr.Data[0].Key
			}
			exp := m.expand(unquoteAct(val))
			gotv := got.Fired[i].Msg
			if name == "logdata" {
				gotv = got.Fired[i].LogD
			}
			if gotv != exp {
				res.Fail = failf("rule %d %s: engine %q, expected %q%s", fr.ID, name, gotv, exp, ctx)
				return res
			}
			res.Labels = append(res.Labels, "msg-macro-checked")
		}
	}
	// labels
	res.Labels = append(res.Labels, "engine:"+c.Cfg.Engine)
	for id, n := range m.matchCount {
		r := rules[id]
		if r == nil || n < 2 || len(r.Acts) == 0 || id == 1 {
			continue
		}
		res.NonTrivial = true
		switch {
		case len(r.Chain) > 0:
			res.Labels = append(res.Labels, "chain-starter>=2-matches")
		case r.Multi:
			res.Labels = append(res.Labels, "multimatch>=2-matches")
		default:
			res.Labels = append(res.Labels, "rule>=2-matches")
		}
		for _, a := range r.Acts {
			if strings.Contains(a, "%{") && strings.Contains(strings.SplitN(a, "=", 2)[0], "%{") {
				res.Labels = append(res.Labels, "macro-key")
			}
			if strings.Contains(a, "{tx.w1}") && strings.Contains(a, "tx.score=") && negW1 {
				res.Labels = append(res.Labels, "signed-macro-operand")
			}
		}
	}
	if got.Intr != nil && rules[got.Intr.RuleID] != nil && len(rules[got.Intr.RuleID].Targets) > 0 && rules[got.Intr.RuleID].Targets[0].Var == "TX" {
		res.Labels = append(res.Labels, "threshold-rule-blocked")
	}
	if got.Highest != "255" {
		res.Labels = append(res.Labels, "severity-set")
	}
	if len(c.AccInc) > 0 {
		res.Labels = append(res.Labels, "accounting-identity-checked")
	}
	return res
}

func chainHasMulti(r *Rule) bool {
	for _, l := range r.Chain {
		if l.Multi {
			return true
		}
	}
	return false
}

func TestC09(t *testing.T) {
	runProp(t, "C09", genC09, checkC09)
}

func init() {
	registerReplay("C09", func(c *C09Case) *Failure { return checkC09(c).Fail })
}
