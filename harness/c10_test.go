// C10 — Body buffering is byte-faithful and limits are enforced exactly.
package verifharness

import (
	"bytes"
	"fmt"
	"io"
	"strings"
	"testing"

	"github.com/corazawaf/coraza/v3/internal/corazawaf"
	"github.com/corazawaf/coraza/v3/types"
	"pgregory.net/rapid"
)

type C10Case struct {
	Side     string   `json:"side"` // req | resp
	Limit    int      `json:"limit"`
	MemLimit int      `json:"memlimit"` // request side only
	Action   string   `json:"action"`   // Reject | ProcessPartial
	Chunks   [][]byte `json:"chunks"`
	Entry    []string `json:"entry"` // write | readlen | readplain, per chunk
	Detect   bool     `json:"detection_only,omitempty"`
	// CtlLimit: a larger limit is configured and a rule lowers it to Limit for this transaction
	// (ctl:requestBodyLimit in phase 1, ctl:responseBodyLimit in phase 3): the limit in force is still Limit
	CtlLimit bool `json:"ctl_limit,omitempty"`
	// ReadBack: how the body reader is consumed: "" (Read with a 3-byte buffer) | copy (io.Copy, which prefers the
	// reader's WriteTo) | head-copy (Read a few bytes, then io.Copy for the rest) | readall
	ReadBack string `json:"read_back,omitempty"`
	Head     int    `json:"head,omitempty"`
}

// plainReader hides Len() so the reader-based entry point cannot know the size in advance.
type plainReader struct{ r io.Reader }

func (p plainReader) Read(b []byte) (int, error) { return p.r.Read(b) }

func genC10(t *rapid.T) *C10Case {
	c := &C10Case{}
	c.Side = rapid.SampledFrom([]string{"req", "req", "resp"}).Draw(t, "side")
	c.Limit = rapid.IntRange(1, 64).Draw(t, "limit")
	c.MemLimit = rapid.IntRange(1, c.Limit).Draw(t, "memlimit")
	c.Action = rapid.SampledFrom([]string{"Reject", "ProcessPartial"}).Draw(t, "action")
	c.CtlLimit = rapid.IntRange(0, 3).Draw(t, "ctllimit") == 0
	c.ReadBack = rapid.SampledFrom([]string{"", "", "copy", "head-copy", "head-copy", "readall"}).Draw(t, "readback")
	c.Head = rapid.IntRange(1, 9).Draw(t, "head")
	// total size biased to each threshold +-1
	targets := []int{0, 1, c.MemLimit - 1, c.MemLimit, c.MemLimit + 1, c.Limit - 1, c.Limit, c.Limit + 1, c.Limit + 7, c.Limit + 40, c.Limit / 2}
	total := rapid.SampledFrom(targets).Draw(t, "total")
	if total < 0 {
		total = 0
	}
	if rapid.IntRange(0, 4).Draw(t, "anytotal") == 0 {
		total = rapid.IntRange(0, c.Limit+40).Draw(t, "total2")
	}
	// body bytes: urlencoded-ish so ARGS_POST is meaningful, but any byte may occur
	body := make([]byte, total)
	for i := range body {
		body[i] = rapid.SampledFrom([]byte("ab=&%41+c\x00\xffz")).Draw(t, "b")
	}
	// partition into <= 6 chunks
	nch := rapid.IntRange(1, 6).Draw(t, "nchunks")
	cuts := []int{0}
	for i := 1; i < nch; i++ {
		cuts = append(cuts, rapid.IntRange(cuts[len(cuts)-1], total).Draw(t, "cut"))
	}
	cuts = append(cuts, total)
	for i := 0; i+1 < len(cuts); i++ {
		c.Chunks = append(c.Chunks, append([]byte(nil), body[cuts[i]:cuts[i+1]]...))
		c.Entry = append(c.Entry, rapid.SampledFrom([]string{"write", "write", "readlen", "readplain"}).Draw(t, "entry"))
	}
	return c
}

type c10Ret struct {
	It  *Intr
	N   int
	Err string
	// Tracer: how many times the body-phase tracer rule had fired when the call returned
	Tracer int
}

type c10Obs struct {
	Rets       []c10Ret
	Final      *Intr
	Reader     []byte
	BodyVar    *string // value of REQUEST_BODY / RESPONSE_BODY seen by the tracer rule, nil when the tracer did not fire
	TracerN    int
	DataErr    bool
	ArgsPost   []Triple
	PhaseRet   *Intr
	PhaseErr   string
	SpillFiles int
}

func (c *C10Case) conf(mem int) string {
	var sb strings.Builder
	sb.WriteString("SecRuleEngine On\n")
	if c.Side == "req" {
		configured := c.Limit
		if c.CtlLimit {
			configured = c.Limit*2 + 10
			fmt.Fprintf(&sb, "SecAction \"id:9,phase:1,pass,nolog,ctl:requestBodyLimit=%d\"\n", c.Limit)
		}
		fmt.Fprintf(&sb, "SecRequestBodyAccess On\nSecRequestBodyLimit %d\nSecRequestBodyInMemoryLimit %d\nSecRequestBodyLimitAction %s\n", configured, mem, c.Action)
		sb.WriteString("SecRule REQUEST_BODY \"@unconditionalMatch\" \"id:1,phase:2,pass\"\n")
		sb.WriteString("SecRule INBOUND_DATA_ERROR \"@eq 1\" \"id:2,phase:2,pass\"\n")
		sb.WriteString("SecRule ARGS_POST \"@unconditionalMatch\" \"id:3,phase:2,pass\"\n")
	} else {
		configured := c.Limit
		if c.CtlLimit {
			configured = c.Limit*2 + 10
			fmt.Fprintf(&sb, "SecAction \"id:9,phase:3,pass,nolog,ctl:responseBodyLimit=%d\"\n", c.Limit)
		}
		fmt.Fprintf(&sb, "SecResponseBodyAccess On\nSecResponseBodyMimeType text/plain\nSecResponseBodyLimit %d\nSecResponseBodyLimitAction %s\n", configured, c.Action)
		sb.WriteString("SecRule RESPONSE_BODY \"@unconditionalMatch\" \"id:1,phase:4,pass\"\n")
		sb.WriteString("SecRule OUTBOUND_DATA_ERROR \"@eq 1\" \"id:2,phase:4,pass\"\n")
	}
	return sb.String()
}

func (c *C10Case) run(mem int) (*c10Obs, *Failure) {
	o := &c10Obs{}
	w, err := newWAF(c.conf(mem))
	if err != nil {
		return nil, failf("configuration rejected: %v\n%s", err, c.conf(mem))
	}
	defer closeWAF(w)
	f := guard("body transaction", func() {
		tx := w.NewTransaction()
		defer func() { _ = tx.Close() }()
		tx.ProcessConnection("10.0.0.1", 1, "10.0.0.2", 80)
		tx.ProcessURI("/p", "POST", "HTTP/1.1")
		tx.AddRequestHeader("Content-Type", "application/x-www-form-urlencoded")
		tx.ProcessRequestHeaders()
		if c.Side == "resp" {
			_, _ = tx.ProcessRequestBody()
			tx.AddResponseHeader("Content-Type", "text/plain")
			tx.ProcessResponseHeaders(200, "HTTP/1.1")
		}
		stopped := false
		for i, ch := range c.Chunks {
			if stopped {
				break
			}
			var it *types.Interruption
			var n int
			var err error
			var rd io.Reader = bytes.NewReader(ch)
			if c.Entry[i] == "readplain" {
				rd = plainReader{bytes.NewReader(ch)}
			}
			switch {
			case c.Side == "req" && c.Entry[i] == "write":
				it, n, err = tx.WriteRequestBody(ch)
			case c.Side == "req":
				it, n, err = tx.ReadRequestBodyFrom(rd)
			case c.Entry[i] == "write":
				it, n, err = tx.WriteResponseBody(ch)
			default:
				it, n, err = tx.ReadResponseBodyFrom(rd)
			}
			r := c10Ret{It: intrOf(it), N: n}
			for _, mr := range tx.MatchedRules() {
				if mr.Rule().ID() == 1 {
					r.Tracer++
				}
			}
			if err != nil {
				r.Err = err.Error()
			}
			o.Rets = append(o.Rets, r)
			if it != nil {
				stopped = true // a connector stops feeding the body once it is refused
			}
		}
		if !stopped {
			var it *types.Interruption
			var err error
			if c.Side == "req" {
				it, err = tx.ProcessRequestBody()
			} else {
				it, err = tx.ProcessResponseBody()
			}
			o.PhaseRet = intrOf(it)
			if err != nil {
				o.PhaseErr = err.Error()
			}
		}
		var rd io.Reader
		if c.Side == "req" {
			rd, _ = tx.RequestBodyReader()
		} else {
			rd, _ = tx.ResponseBodyReader()
		}
		if rd != nil {
			var buf bytes.Buffer
			switch c.ReadBack {
			case "copy":
				_, _ = io.Copy(&buf, rd)
			case "head-copy":
				// what a connector does that sniffs the beginning and forwards the rest
				head := make([]byte, c.Head)
				n, _ := io.ReadFull(rd, head)
				buf.Write(head[:n])
				_, _ = io.Copy(&buf, rd)
			case "readall":
				b, _ := io.ReadAll(rd)
				buf.Write(b)
			default:
				// read in odd-sized pieces to exercise the reader's boundary arithmetic
				piece := make([]byte, 3)
				for {
					n, err := rd.Read(piece)
					buf.Write(piece[:n])
					if err != nil || n == 0 {
						break
					}
				}
			}
			o.Reader = buf.Bytes()
		}
		o.Final = intrOf(tx.Interruption())
		for _, fr := range collectFired(tx) {
			switch fr.ID {
			case 1:
				o.TracerN++
				if len(fr.Data) > 0 {
					v := fr.Data[0].Val
					o.BodyVar = &v
				}
			case 2:
				o.DataErr = true
			case 3:
				o.ArgsPost = fr.Data
			}
		}
		tx.ProcessLogging()
	})
	return o, f
}

// c10Model is the reference model of the statement.
type c10Model struct {
	stored      []byte
	done        bool // ProcessPartial: limit reached, body phase has run
	interrupted bool
	status      int
}

func checkC10(c *C10Case) Result {
	res := Result{}
	status := 413
	if c.Side == "resp" {
		status = 500
	}
	var all []byte
	for _, ch := range c.Chunks {
		all = append(all, ch...)
	}
	mems := []int{c.MemLimit}
	if c.Side == "req" {
		// metamorphic pair: everything in memory vs the smallest possible memory buffer (spill)
		mems = []int{c.Limit, c.MemLimit, 1}
	}
	var first *c10Obs
	for mi, mem := range mems {
		o, f := c.run(mem)
		if f != nil {
			res.Fail = f
			return res
		}
		desc := fmt.Sprintf("side=%s limit=%d memlimit=%d action=%s chunks=%q entry=%v", c.Side, c.Limit, mem, c.Action, c.Chunks, c.Entry)
		m := &c10Model{}
		for i, r := range o.Rets {
			ch := c.Chunks[i]
			if r.Err != "" {
				res.Fail = failf("chunk %d returned error %q; %s", i, r.Err, desc)
				return res
			}
			cur := len(m.stored)
			switch c.Action {
			case "Reject":
				wantIt := false
				wantStored := 0
				switch c.Entry[i] {
				case "readplain":
					room := c.Limit - cur
					wantStored = len(ch)
					if wantStored > room {
						wantStored = room
					}
					wantIt = cur+wantStored == c.Limit
				default:
					if cur+len(ch) >= c.Limit {
						wantIt = true
					} else {
						wantStored = len(ch)
					}
				}
				if (r.It != nil) != wantIt {
					res.Fail = failf("chunk %d (%d bytes after %d stored): refusal=%v, the statement says refused exactly when the cumulative size reaches the limit (%v); %s", i, len(ch), cur, r.It != nil, wantIt, desc)
					return res
				}
				if r.It != nil && (r.It.Status != status || r.It.Action != "deny") {
					res.Fail = failf("chunk %d refused with %v, expected status %d; %s", i, r.It, status, desc)
					return res
				}
				if !wantIt && r.N != wantStored {
					res.Fail = failf("chunk %d: n=%d, expected %d; %s", i, r.N, wantStored, desc)
					return res
				}
				m.stored = append(m.stored, ch[:wantStored]...)
				if wantIt {
					m.interrupted = true
				}
			case "ProcessPartial":
				if r.It != nil {
					res.Fail = failf("chunk %d returned an interruption %v under ProcessPartial; %s", i, r.It, desc)
					return res
				}
				if m.done {
					if r.N != 0 {
						res.Fail = failf("chunk %d after the limit was reached stored n=%d bytes; %s", i, r.N, desc)
						return res
					}
					continue
				}
				take := len(ch)
				if cur+take >= c.Limit {
					take = c.Limit - cur
					m.done = true
				}
				if r.N != take {
					res.Fail = failf("chunk %d: n=%d, expected %d (limit %d, %d stored before); %s", i, r.N, take, c.Limit, cur, desc)
					return res
				}
				if m.done && r.Tracer != 1 {
					// the write that reaches the limit runs the body phase itself: its return value is how a
					// streaming connector learns about a phase-2/4 interruption of the truncated body
					res.Fail = failf("chunk %d reached the limit under ProcessPartial but the body phase had run %d times when the call returned; %s", i, r.Tracer, desc)
					return res
				}
				m.stored = append(m.stored, ch[:take]...)
			}
		}
		// what is stored / readable
		if c.Action == "Reject" && m.interrupted {
			// nothing beyond the limit, and a prefix of what was supplied
			if len(o.Reader) > c.Limit || !bytes.HasPrefix(all, o.Reader) {
				res.Fail = failf("after a refusal the buffer holds %q: not a prefix of the supplied bytes within the limit; %s", o.Reader, desc)
				return res
			}
			if o.Final == nil || o.Final.Status != status {
				res.Fail = failf("refused body but Interruption() = %v; %s", o.Final, desc)
				return res
			}
		} else {
			if !bytes.Equal(o.Reader, m.stored) {
				res.Fail = failf("body reader returned %q, expected %q; %s", o.Reader, m.stored, desc)
				return res
			}
			if o.Final != nil {
				res.Fail = failf("unexpected interruption %v; %s", o.Final, desc)
				return res
			}
			// the body phase ran exactly once
			if o.TracerN != 1 {
				res.Fail = failf("the body phase tracer fired %d times, expected exactly once; %s", o.TracerN, desc)
				return res
			}
			wantVar := string(m.stored)
			if o.BodyVar == nil || *o.BodyVar != wantVar {
				got := "<tracer did not fire>"
				if o.BodyVar != nil {
					got = *o.BodyVar
				}
				res.Fail = failf("%s body variable = %q, expected %q; %s", c.Side, got, wantVar, desc)
				return res
			}
			wantErr := m.done
			if o.DataErr != wantErr {
				res.Fail = failf("data-error variable set=%v, expected %v (limit reached under ProcessPartial); %s", o.DataErr, wantErr, desc)
				return res
			}
			if o.PhaseErr != "" {
				res.Fail = failf("body phase returned error %q; %s", o.PhaseErr, desc)
				return res
			}
		}
		// metamorphic: memory vs spill give identical observables
		if mi == 0 {
			first = o
		} else if d := c10Diff(first, o); d != "" {
			res.Fail = failf("in-memory limit %d vs %d differ: %s; %s", mems[0], mem, d, desc)
			return res
		}
		if mem < len(m.stored) {
			res.Labels = append(res.Labels, "spilled-to-disk")
		}
		if mi == len(mems)-1 {
			total := len(all)
			switch {
			case total == c.Limit-1:
				res.Labels = append(res.Labels, "total=limit-1")
			case total == c.Limit:
				res.Labels = append(res.Labels, "total=limit")
			case total == c.Limit+1:
				res.Labels = append(res.Labels, "total=limit+1")
			}
			straddle := false
			cum := 0
			for _, ch := range c.Chunks {
				if cum < c.Limit && cum+len(ch) > c.Limit {
					straddle = true
				}
				cum += len(ch)
			}
			if straddle {
				res.Labels = append(res.Labels, "chunk-straddles-limit")
			}
			if m.done {
				res.Labels = append(res.Labels, "partial-limit-reached")
			}
			if m.interrupted {
				res.Labels = append(res.Labels, "rejected")
			}
			res.Labels = append(res.Labels, "side:"+c.Side, "action:"+c.Action)
			if c.ReadBack != "" {
				res.Labels = append(res.Labels, "read-back:"+c.ReadBack)
			}
			if c.CtlLimit {
				res.Labels = append(res.Labels, "limit-lowered-by-ctl:"+c.Side)
			}
			for _, e := range c.Entry {
				res.Labels = append(res.Labels, "entry:"+e)
			}
			res.NonTrivial = straddle || (total >= c.Limit-1 && total <= c.Limit+1) || (c.Side == "req" && len(m.stored) > 1)
		}
	}
	return res
}

func c10Diff(a, b *c10Obs) string {
	if fmt.Sprintf("%v", a.Rets) != fmt.Sprintf("%v", b.Rets) {
		return fmt.Sprintf("returns %v vs %v", a.Rets, b.Rets)
	}
	if !bytes.Equal(a.Reader, b.Reader) {
		return fmt.Sprintf("reader %q vs %q", a.Reader, b.Reader)
	}
	if (a.BodyVar == nil) != (b.BodyVar == nil) || (a.BodyVar != nil && *a.BodyVar != *b.BodyVar) {
		return "body variable differs"
	}
	if fmt.Sprintf("%q", a.ArgsPost) != fmt.Sprintf("%q", b.ArgsPost) {
		return fmt.Sprintf("ARGS_POST %q vs %q", a.ArgsPost, b.ArgsPost)
	}
	if a.DataErr != b.DataErr || a.TracerN != b.TracerN || !intrEq(a.Final, b.Final) {
		return "error flag / tracer / interruption differ"
	}
	return ""
}

func TestC10Tx(t *testing.T) {
	runProp(t, "C10", genC10, checkC10)
}

// ---- the bare BodyBuffer ------------------------------------------------------------------------

type C10BufCase struct {
	Limit    int      `json:"limit"`
	MemLimit int      `json:"memlimit"`
	Ops      []string `json:"ops"` // w:<n> | reader | read:<idx>:<n> | reset
	Seed     byte     `json:"seed"`
}

func genC10Buf(t *rapid.T) *C10BufCase {
	c := &C10BufCase{Limit: rapid.IntRange(1, 48).Draw(t, "limit"), Seed: rapid.Byte().Draw(t, "seed")}
	c.MemLimit = rapid.IntRange(1, c.Limit).Draw(t, "mem")
	n := rapid.IntRange(1, 14).Draw(t, "nops")
	readers := 0
	for i := 0; i < n; i++ {
		switch rapid.IntRange(0, 6).Draw(t, "op") {
		case 0, 1, 2:
			c.Ops = append(c.Ops, fmt.Sprintf("w:%d", rapid.IntRange(0, 20).Draw(t, "wn")))
		case 3:
			c.Ops = append(c.Ops, "reader")
			readers++
		case 4, 5:
			if readers > 0 {
				c.Ops = append(c.Ops, fmt.Sprintf("read:%d:%d", rapid.IntRange(0, readers-1).Draw(t, "ridx"), rapid.IntRange(1, 9).Draw(t, "rn")))
			}
		case 6:
			c.Ops = append(c.Ops, "reset")
		}
	}
	return c
}

func checkC10Buf(c *C10BufCase) Result {
	res := Result{}
	f := guard("BodyBuffer", func() {
		bb := corazawaf.NewBodyBuffer(types.BodyBufferOptions{TmpPath: privateTmp, MemoryLimit: int64(c.MemLimit), Limit: int64(c.Limit)})
		var model []byte
		type rd struct {
			r     io.Reader
			pos   int
			epoch int
		}
		var readers []*rd
		epoch := 0
		next := c.Seed
		spilled := false
		for _, op := range c.Ops {
			switch {
			case strings.HasPrefix(op, "w:"):
				var n int
				fmt.Sscanf(op, "w:%d", &n)
				data := make([]byte, n)
				for i := range data {
					data[i] = next
					next = next*31 + 7
				}
				wn, err := bb.Write(data)
				if len(model)+n > c.Limit {
					if err == nil {
						res.Fail = failf("write of %d bytes beyond the limit %d (stored %d) was accepted; ops %v", n, c.Limit, len(model), c.Ops)
						return
					}
					continue
				}
				if err != nil || wn != n {
					res.Fail = failf("write of %d bytes within the limit failed: n=%d err=%v; ops %v", n, wn, err, c.Ops)
					return
				}
				model = append(model, data...)
				if len(model) > c.MemLimit {
					spilled = true
				}
				if bb.Size() != int64(len(model)) {
					res.Fail = failf("Size()=%d, expected %d; ops %v", bb.Size(), len(model), c.Ops)
					return
				}
			case op == "reader":
				r, err := bb.Reader()
				if err != nil {
					res.Fail = failf("Reader(): %v", err)
					return
				}
				readers = append(readers, &rd{r: r, epoch: epoch})
			case strings.HasPrefix(op, "read:"):
				var idx, n int
				fmt.Sscanf(op, "read:%d:%d", &idx, &n)
				r := readers[idx]
				buf := make([]byte, n)
				got, err := r.r.Read(buf)
				if r.epoch != epoch {
					// reader of a buffer that has been reset: no further data
					if got != 0 {
						res.Fail = failf("a reader obtained before Reset returned %d bytes afterwards; ops %v", got, c.Ops)
						return
					}
					continue
				}
				want := model[min(r.pos, len(model)):]
				if len(want) > n {
					want = want[:n]
				}
				if !bytes.Equal(buf[:got], want[:min(got, len(want))]) || (got != len(want) && !(err == nil && got < len(want) && got > 0)) {
					res.Fail = failf("reader %d at pos %d read %q (err %v), expected %q; ops %v", idx, r.pos, buf[:got], err, want, c.Ops)
					return
				}
				r.pos += got
			case op == "reset":
				if err := bb.Reset(); err != nil {
					res.Fail = failf("Reset: %v", err)
					return
				}
				model = nil
				epoch++
			}
		}
		// final full read through a fresh reader
		r, _ := bb.Reader()
		all, err := boundedReadAll(r, c.Limit+64)
		if err != nil || !bytes.Equal(all, model) {
			res.Fail = failf("final read %q err %v, expected %q; ops %v", all, err, model, c.Ops)
			return
		}
		_ = bb.Reset()
		if spilled {
			res.Labels = append(res.Labels, "buffer-spilled")
		}
		if epoch > 0 {
			res.Labels = append(res.Labels, "buffer-reset")
		}
		res.NonTrivial = spilled || epoch > 0 || len(readers) > 1
	})
	if f != nil {
		res.Fail = f
	}
	return res
}

// boundedReadAll is io.ReadAll with a bound on the number of Read calls, so a reader that keeps
// returning (0, nil) is reported instead of hanging the check.
func boundedReadAll(r io.Reader, maxCalls int) ([]byte, error) {
	var out []byte
	buf := make([]byte, 7)
	for i := 0; i < maxCalls*2+16; i++ {
		n, err := r.Read(buf)
		out = append(out, buf[:n]...)
		if err == io.EOF {
			return out, nil
		}
		if err != nil {
			return out, err
		}
	}
	return out, fmt.Errorf("reader did not reach EOF after %d Read calls", maxCalls*2+16)
}

func TestC10Buffer(t *testing.T) {
	runProp(t, "C10B", genC10Buf, checkC10Buf)
}

func init() {
	registerReplay("C10", func(c *C10Case) *Failure { return checkC10(c).Fail })
	registerReplay("C10B", func(c *C10BufCase) *Failure { return checkC10Buf(c).Fail })
}
