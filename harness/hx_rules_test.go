// Structured rule-set description and its canonical renderer (DESIGN.md §3.1).
package verifharness

import (
	"fmt"
	"strings"
)

type Target struct {
	Var   string `json:"var"`
	Key   string `json:"key,omitempty"` // literal key, or regex source when Rx
	Rx    bool   `json:"rx,omitempty"`
	Count bool   `json:"count,omitempty"`
	Neg   bool   `json:"neg,omitempty"`
}

func (t Target) String() string {
	s := ""
	if t.Neg {
		s += "!"
	}
	if t.Count {
		s += "&"
	}
	s += t.Var
	if t.Rx {
		s += ":/" + t.Key + "/"
	} else if t.Key != "" {
		s += ":" + t.Key
	}
	return s
}

type Rule struct {
	ID        int      `json:"id,omitempty"`
	Phase     int      `json:"phase,omitempty"`
	SecAction bool     `json:"secaction,omitempty"`
	Targets   []Target `json:"targets,omitempty"`
	Op        string   `json:"op,omitempty"` // without '@'
	Arg       string   `json:"arg,omitempty"`
	OpNeg     bool     `json:"opneg,omitempty"`
	Trans     []string `json:"t,omitempty"`
	Multi     bool     `json:"multi,omitempty"`
	Capture   bool     `json:"capture,omitempty"`
	// Acts are rendered verbatim between the metadata and the disruptive action
	// (setvar:..., ctl:..., log, nolog, auditlog, severity:N, msg:'..', tag:'..').
	Acts      []string `json:"acts,omitempty"`
	Disr      string   `json:"disr,omitempty"` // pass deny drop redirect allow allow:phase allow:request block
	Redirect  string   `json:"redirect,omitempty"`
	Status    int      `json:"status,omitempty"`
	Skip      int      `json:"skip,omitempty"`
	SkipAfter string   `json:"skipafter,omitempty"`
	Chain     []*Rule  `json:"chain,omitempty"`
}

type Item struct {
	Rule   *Rule  `json:"rule,omitempty"`
	Marker string `json:"marker,omitempty"`
	Line   string `json:"line,omitempty"` // any other directive, verbatim
}

type RuleSet struct {
	Pre   []string `json:"pre,omitempty"` // settings directives, verbatim, first
	Items []Item   `json:"items"`
}

func renderTargets(ts []Target) string {
	var parts []string
	for _, t := range ts {
		parts = append(parts, t.String())
	}
	return strings.Join(parts, "|")
}

func (r *Rule) actionList(link bool, hasNext bool) string {
	var a []string
	if !link {
		a = append(a, fmt.Sprintf("id:%d", r.ID), fmt.Sprintf("phase:%d", r.Phase))
	}
	if len(r.Trans) > 0 || !link {
		a = append(a, "t:none")
	}
	for _, t := range r.Trans {
		a = append(a, "t:"+t)
	}
	if r.Multi {
		a = append(a, "multiMatch")
	}
	if r.Capture {
		a = append(a, "capture")
	}
	a = append(a, r.Acts...)
	if r.Status != 0 {
		a = append(a, fmt.Sprintf("status:%d", r.Status))
	}
	switch {
	case r.Disr == "":
	case r.Disr == "redirect":
		a = append(a, "redirect:"+r.Redirect)
	default:
		a = append(a, r.Disr)
	}
	if r.Skip > 0 {
		a = append(a, fmt.Sprintf("skip:%d", r.Skip))
	}
	if r.SkipAfter != "" {
		a = append(a, "skipAfter:"+r.SkipAfter)
	}
	if hasNext {
		a = append(a, "chain")
	}
	return strings.Join(a, ",")
}

func (r *Rule) renderOne(link bool, hasNext bool) string {
	if r.SecAction {
		return fmt.Sprintf("SecAction \"%s\"", r.actionList(link, hasNext))
	}
	op := ""
	if r.OpNeg {
		op = "!"
	}
	op += "@" + r.Op
	if r.Arg != "" {
		op += " " + r.Arg
	}
	acts := r.actionList(link, hasNext)
	if acts == "" {
		return fmt.Sprintf("SecRule %s \"%s\"", renderTargets(r.Targets), op)
	}
	return fmt.Sprintf("SecRule %s \"%s\" \"%s\"", renderTargets(r.Targets), op, acts)
}

func (r *Rule) Render() string {
	var sb strings.Builder
	sb.WriteString(r.renderOne(false, len(r.Chain) > 0))
	sb.WriteString("\n")
	for i, l := range r.Chain {
		sb.WriteString("  ")
		sb.WriteString(l.renderOne(true, i+1 < len(r.Chain)))
		sb.WriteString("\n")
	}
	return sb.String()
}

// tmpPlaceholder stands for this process' private temporary directory inside generated cases,
// so that a saved case does not depend on the process that generated it.
const tmpPlaceholder = "${VERIF_TMP}"

func expandTmp(s string) string { return strings.ReplaceAll(s, tmpPlaceholder, privateTmp) }

func (rs *RuleSet) Render() string { return expandTmp(rs.render()) }

func (rs *RuleSet) render() string {
	var sb strings.Builder
	for _, l := range rs.Pre {
		sb.WriteString(l)
		sb.WriteString("\n")
	}
	for _, it := range rs.Items {
		switch {
		case it.Rule != nil:
			sb.WriteString(it.Rule.Render())
		case it.Marker != "":
			sb.WriteString("SecMarker " + it.Marker + "\n")
		default:
			sb.WriteString(it.Line + "\n")
		}
	}
	return sb.String()
}

func (rs *RuleSet) Rules() []*Rule {
	var out []*Rule
	for _, it := range rs.Items {
		if it.Rule != nil {
			out = append(out, it.Rule)
		}
	}
	return out
}
