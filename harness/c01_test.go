// C01 — Rule matching is exact: no missed match, no phantom match.
package verifharness

import (
	"fmt"
	"strconv"
	"strings"
	"testing"

	"pgregory.net/rapid"
)

var c01Names = []string{"a", "A", "b", "Ab", "aB", "", "a.b", "x-y", "foo", "Foo", "FOO", "a", "b"}
var c01Values = []string{"", "x", "X", "abc", "ABC", "aBc", " abc ", "a%41c", "a+b", "%", "1", "2", "10", "007", "\xff\xfe", "é", "ab\x00c", "a b\tc", "foo=bar&x", "select", "SeLeCt 1", "<script>"}
var c01HdrNames = []string{"H", "h", "X-A", "x-a", "Foo", "foo", "Accept", "X-Über", "x-über"}
var c01CookieNames = []string{"a", "A", "sid", "Foo", "foo", "SÉSSION", "séssion"}
var c01CookieValues = []string{"", "x", "abc", "ABC", "1", "a=b", "%41", "\xff"}
var c01KeyRegexes = []string{"^a", "a$", "^fo", "^Fo", "^FOO$", ".", "^[a-c]", "^[A-C]b$", "a|b", "^$", "x-", "o+", "^a\\.b$", "b?a", "^h$", "^X-", "sid|foo"}

type varSpec struct {
	name     string
	keyed    bool
	minPhase int
}

var c01Vars = []varSpec{
	{"ARGS", true, 1}, {"ARGS_GET", true, 1}, {"ARGS_POST", true, 2}, {"ARGS_NAMES", true, 1}, {"ARGS_GET_NAMES", true, 1}, {"ARGS_POST_NAMES", true, 2},
	{"REQUEST_HEADERS", true, 1}, {"REQUEST_HEADERS_NAMES", true, 1}, {"REQUEST_COOKIES", true, 1}, {"REQUEST_COOKIES_NAMES", true, 1},
	{"REQUEST_URI", false, 1}, {"QUERY_STRING", false, 1}, {"REQUEST_METHOD", false, 1}, {"REQUEST_BODY", false, 2},
	{"RESPONSE_HEADERS", true, 3}, {"RESPONSE_STATUS", false, 3}, {"RESPONSE_HEADERS_NAMES", true, 3},
}

func namePoolFor(v string) []string {
	switch {
	case strings.HasPrefix(v, "ARGS"):
		return c01Names
	case strings.HasPrefix(v, "REQUEST_COOKIES"):
		return c01CookieNames
	default:
		return c01HdrNames
	}
}

func genC01Req(t *rapid.T) Req {
	r := Req{Method: rapid.SampledFrom([]string{"GET", "POST", "PUT"}).Draw(t, "method"), Path: rapid.SampledFrom([]string{"/", "/p", "/a/b.php"}).Draw(t, "path")}
	nq := rapid.IntRange(0, 6).Draw(t, "nq")
	for i := 0; i < nq; i++ {
		r.Query = append(r.Query, KV{rapid.SampledFrom(c01Names).Draw(t, "qn"), rapid.SampledFrom(c01Values).Draw(t, "qv")})
	}
	nh := rapid.IntRange(0, 4).Draw(t, "nh")
	for i := 0; i < nh; i++ {
		r.Headers = append(r.Headers, KV{rapid.SampledFrom(c01HdrNames).Draw(t, "hn"), rapid.SampledFrom(c01Values).Draw(t, "hv")})
	}
	nc := rapid.IntRange(0, 3).Draw(t, "nc")
	for i := 0; i < nc; i++ {
		r.Cookies = append(r.Cookies, KV{rapid.SampledFrom(c01CookieNames).Draw(t, "cn"), rapid.SampledFrom(c01CookieValues).Draw(t, "cv")})
	}
	if rapid.Bool().Draw(t, "haspost") {
		np := rapid.IntRange(1, 5).Draw(t, "np")
		r.Post = []KV{}
		for i := 0; i < np; i++ {
			r.Post = append(r.Post, KV{rapid.SampledFrom(c01Names).Draw(t, "pn"), rapid.SampledFrom(c01Values).Draw(t, "pv")})
		}
	}
	r.RespStatus = rapid.SampledFrom([]int{200, 404, 500}).Draw(t, "rstatus")
	nrh := rapid.IntRange(0, 3).Draw(t, "nrh")
	for i := 0; i < nrh; i++ {
		r.RespHeaders = append(r.RespHeaders, KV{rapid.SampledFrom(c01HdrNames).Draw(t, "rhn"), rapid.SampledFrom(c01Values).Draw(t, "rhv")})
	}
	return r
}

// valuesSeen: a pool of strings drawn from the request, so operator arguments sit near the decision boundary
func requestStrings(r *Req) []string {
	out := []string{"x", "a", "1"}
	for _, l := range [][]KV{r.Query, r.Headers, r.Cookies, r.Post, r.RespHeaders} {
		for _, kv := range l {
			out = append(out, kv.K, kv.V)
		}
	}
	return out
}

var reSafeArg = strings.NewReplacer()

// operator arguments are restricted to bytes that survive the directive syntax unchanged
// (C16 owns quoting and escaping): no quote, backslash, control or non-ASCII bytes, no blank at the edges.
func safeArg(s string) bool {
	if s == "" || s != strings.TrimSpace(s) {
		return false
	}
	for i := 0; i < len(s); i++ {
		c := s[i]
		if c < 0x20 || c >= 0x7f || c == '"' || c == '\\' || c == '\'' || c == '%' || c == '|' {
			return false
		}
	}
	return true
}

func genC01Op(t *rapid.T, r *Rule, pool []string, count bool) {
	if count {
		r.Op = rapid.SampledFrom([]string{"eq", "ge", "gt", "lt", "le"}).Draw(t, "cop")
		r.Arg = strconv.Itoa(rapid.IntRange(0, 4).Draw(t, "carg"))
		return
	}
	r.Op = rapid.SampledFrom([]string{"streq", "contains", "beginsWith", "endsWith", "within", "eq", "ge", "lt", "rx", "pm", "strmatch", "unconditionalMatch", "noMatch"}).Draw(t, "op")
	var cands []string
	for _, s := range pool {
		if safeArg(s) {
			cands = append(cands, s)
		}
	}
	base := rapid.SampledFrom(cands).Draw(t, "argbase")
	switch r.Op {
	case "eq", "ge", "lt":
		r.Arg = rapid.SampledFrom([]string{"0", "1", "2", "7", "10"}).Draw(t, "num")
	case "rx":
		r.Arg = rapid.SampledFrom([]string{"^a", "b", "^[a-c]+$", "(?i)abc", "^$", "a.c", "^\\d+$", "sel", "x|y", "c$"}).Draw(t, "rx")
	case "pm":
		r.Arg = base + " " + rapid.SampledFrom([]string{"abc", "x", "select", "zz"}).Draw(t, "pm2")
	case "within":
		r.Arg = base + rapid.SampledFrom([]string{"", "x", "abc"}).Draw(t, "wsuffix")
	case "unconditionalMatch", "noMatch":
		r.Arg = ""
	default:
		// a prefix / suffix / whole of a request value
		switch rapid.IntRange(0, 3).Draw(t, "argshape") {
		case 0:
			r.Arg = base
		case 1:
			r.Arg = base[:rapid.IntRange(1, len(base)).Draw(t, "plen")]
		case 2:
			r.Arg = base[rapid.IntRange(0, len(base)-1).Draw(t, "soff"):]
		default:
			r.Arg = base + "z"
		}
		if !safeArg(r.Arg) {
			r.Arg = base
		}
	}
	r.OpNeg = rapid.IntRange(0, 4).Draw(t, "neg") == 0
}

func genC01Targets(t *rapid.T, r *Rule, phase int) (labels []string) {
	nt := rapid.IntRange(1, 3).Draw(t, "ntargets")
	var avail []varSpec
	for _, v := range c01Vars {
		avail = append(avail, v)
	}
	count := false
	for i := 0; i < nt; i++ {
		v := rapid.SampledFrom(avail).Draw(t, "var")
		tg := Target{Var: v.name}
		if v.keyed {
			switch rapid.IntRange(0, 5).Draw(t, "sel") {
			case 0, 1:
			case 2, 3:
				tg.Key = rapid.SampledFrom(namePoolFor(v.name)).Draw(t, "key")
				if tg.Key == "" || strings.ContainsAny(tg.Key, "|") {
					tg.Key = "a"
				}
				labels = append(labels, "string-key")
			default:
				tg.Rx = true
				tg.Key = argsRxCase(v.name, rapid.SampledFrom(c01KeyRegexes).Draw(t, "keyrx"))
				labels = append(labels, "regex-key")
			}
		}
		if i == 0 && rapid.IntRange(0, 5).Draw(t, "count") == 0 {
			tg.Count = true
			count = true
			labels = append(labels, "count")
		}
		r.Targets = append(r.Targets, tg)
		if count {
			break // a count target has its own numeric operator: keep it alone
		}
	}
	// exclusions on variables that are in the list
	nx := rapid.IntRange(0, 2).Draw(t, "nexcl")
	for i := 0; i < nx; i++ {
		base := rapid.SampledFrom(r.Targets).Draw(t, "xbase")
		if base.Neg {
			continue
		}
		keyed := false
		for _, v := range c01Vars {
			if v.name == base.Var {
				keyed = v.keyed
			}
		}
		if !keyed {
			continue
		}
		x := Target{Var: base.Var, Neg: true}
		switch rapid.IntRange(0, 3).Draw(t, "xsel") {
		case 0, 1:
			x.Key = rapid.SampledFrom(namePoolFor(base.Var)).Draw(t, "xkey")
			if x.Key == "" {
				x.Key = "b"
			}
		case 2:
			x.Rx = true
			x.Key = argsRxCase(base.Var, rapid.SampledFrom(c01KeyRegexes).Draw(t, "xrx"))
		default:
			if base.Key != "" || base.Rx {
				// "!VAR" after a keyed selector would exclude everything; allowed but rare
				x.Key = rapid.SampledFrom(namePoolFor(base.Var)).Draw(t, "xkey2")
				if x.Key == "" {
					x.Key = "b"
				}
			}
		}
		r.Targets = append(r.Targets, x)
		labels = append(labels, "exclusion")
	}
	return labels
}

// argsRxCase: known finding C01-args-regex-uppercase (regex keys on ARGS-family variables are
// kept case-sensitive while the names are stored lower-cased, so a pattern with an upper-case
// literal never selects anything). While the witness still fails, the class is excluded by
// construction: such patterns are generated lower-cased, and the exclusions are counted.
func argsRxCase(v, pat string) string {
	if argsFamily[v] && known("C01-args-regex-uppercase") && pat != strings.ToLower(pat) {
		statExcluded("C01-args-regex-uppercase")
		return strings.ToLower(pat)
	}
	return pat
}

func genC01Rule(t *rapid.T, r *Rule, phase int, pool []string) (labels []string) {
	labels = genC01Targets(t, r, phase)
	count := len(r.Targets) > 0 && r.Targets[0].Count
	genC01Op(t, r, pool, count)
	if !count {
		r.Trans = rapid.SliceOfN(rapid.SampledFrom(refTransNames), 0, 3).Draw(t, "trans")
		if len(r.Trans) > 0 && rapid.IntRange(0, 3).Draw(t, "multi") == 0 {
			r.Multi = true
			labels = append(labels, "multiMatch")
		}
	}
	return labels
}

type C01Case struct {
	FlowCase
	Labels []string `json:"labels,omitempty"`
}

func genC01(t *rapid.T) *C01Case {
	c := &C01Case{}
	c.Cfg.Engine = "On"
	c.Cfg.ReqBodyAccess = rapid.IntRange(0, 4).Draw(t, "reqbody") > 0
	c.Req = genC01Req(t)
	pool := requestStrings(&c.Req)
	n := rapid.IntRange(1, 6).Draw(t, "nrules")
	id := 400
	for i := 0; i < n; i++ {
		id++
		r := &Rule{ID: id, Phase: rapid.IntRange(1, 5).Draw(t, "phase"), Disr: "pass"}
		c.Labels = append(c.Labels, genC01Rule(t, r, r.Phase, pool)...)
		nl := 0
		if rapid.IntRange(0, 3).Draw(t, "chain") == 0 {
			nl = rapid.IntRange(1, 2).Draw(t, "links")
			c.Labels = append(c.Labels, "chain")
		}
		for j := 0; j < nl; j++ {
			l := &Rule{}
			c.Labels = append(c.Labels, genC01Rule(t, l, r.Phase, pool)...)
			r.Chain = append(r.Chain, l)
		}
		c.RS.Items = append(c.RS.Items, Item{Rule: r})
	}
	c.RS.Pre = c.Cfg.PreLines()
	return c
}

func checkC01(c *C01Case) Result {
	res := Result{}
	conf := c.RS.Render()
	w, err := newWAF(conf)
	if err != nil {
		res.Fail = failf("generated configuration rejected: %v\n%s", err, conf)
		return res
	}
	defer closeWAF(w)
	got, f := runCanonical(w, &c.Req)
	if f != nil {
		res.Fail = f
		return res
	}
	want, _ := refEvalM(&c.RS, &c.Req, c.Cfg)
	rules := map[int]*Rule{}
	for _, r := range c.RS.Rules() {
		rules[r.ID] = r
	}
	gf := append([]Fired(nil), got.Fired...)
	wf := append([]Fired(nil), want.Fired...)
	for _, l := range [][]Fired{gf, wf} {
		for i := range l {
			if r := rules[l[i].ID]; false && r != nil {
				l[i].Data = dedupTriples(l[i].Data)
			}
		}
	}
	isCount := func(id int, t Triple) bool {
		r := rules[id]
		if r == nil {
			return false
		}
		for _, rr := range append([]*Rule{r}, r.Chain...) {
			for _, tg := range rr.Targets {
				if tg.Count && tg.Var == t.Var {
					return true
				}
			}
		}
		return false
	}
	asSet := func(id int) bool { return false } // multiMatch rules too: an unchanged value is not evaluated twice
	if d := diffFiredSets(gf, wf, isCount, asSet); d != "" {
		res.Fail = failf("%s\nengine fired %v, model fired %v\nconfig:\n%srequest: %s %s\n headers %q\n cookies %q\n post %q resp-headers %q", d,
			firedIDs(got.Fired), firedIDs(want.Fired), conf, c.Req.Method, c.Req.URI(), c.Req.AllHeaders(), c.Req.Cookies, c.Req.Post, c.Req.RespHeaders)
		return res
	}
	// labels and non-triviality
	res.Labels = append(res.Labels, c.Labels...)
	special := len(c.Labels) > 0
	dup := hasDupOrCaseVariant(c.Req.Query) || hasDupOrCaseVariant(c.Req.Post) || hasDupOrCaseVariant(c.Req.Headers)
	if dup {
		res.Labels = append(res.Labels, "dup-or-case-variant-name")
	}
	if sameKeyGetPost(&c.Req) {
		res.Labels = append(res.Labels, "same-key-in-GET-and-POST")
	}
	for _, kv := range append(append([]KV(nil), c.Req.Query...), c.Req.Post...) {
		if kv.K == "" {
			res.Labels = append(res.Labels, "empty-name")
		}
		if strings.ContainsAny(kv.V, "\xff\xfe") {
			res.Labels = append(res.Labels, "non-utf8-value")
		}
	}
	nfired := len(got.Fired)
	nrules := len(rules)
	if nfired > 0 && nfired < nrules && (special || dup) {
		res.NonTrivial = true
	}
	res.Labels = append(res.Labels, fmt.Sprintf("fired-%d-of-%d", min(nfired, 3), min(nrules, 3)))
	return res
}

func hasDupOrCaseVariant(kvs []KV) bool {
	seen := map[string]bool{}
	for _, kv := range kvs {
		k := strings.ToLower(kv.K)
		if seen[k] {
			return true
		}
		seen[k] = true
	}
	return false
}

func sameKeyGetPost(r *Req) bool {
	g := map[string]bool{}
	for _, kv := range r.Query {
		g[strings.ToLower(kv.K)] = true
	}
	for _, kv := range r.Post {
		if g[strings.ToLower(kv.K)] {
			return true
		}
	}
	return false
}

func TestC01(t *testing.T) {
	runProp(t, "C01", genC01, checkC01)
}

func init() {
	registerReplay("C01", func(c *C01Case) *Failure { return checkC01(c).Fail })
}
