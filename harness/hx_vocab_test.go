package verifharness

import (
	"os"
	"path/filepath"
	"regexp"
	"sort"
	"strings"
	"sync"
)

// repoDir is the tree the harness is compiled against (the `replace` target).
func repoDir() string {
	if d := os.Getenv("VERIF_REPO"); d != "" {
		return d
	}
	return "/repo"
}

func workDir() string {
	if d := os.Getenv("VERIF_WORK"); d != "" {
		return d
	}
	return "/verif/.work"
}

var vocabOnce sync.Once
var vocabData struct {
	transformations []string
	operators       []string
	actions         []string
	directives      []string
	variables       []string
}

var reRegister = regexp.MustCompile(`Register\("([^"]+)"`)

func scrape(rel string, re *regexp.Regexp) []string {
	b, err := os.ReadFile(filepath.Join(repoDir(), rel))
	if err != nil {
		return nil
	}
	seen := map[string]bool{}
	var out []string
	for _, m := range re.FindAllStringSubmatch(string(b), -1) {
		if !seen[m[1]] {
			seen[m[1]] = true
			out = append(out, m[1])
		}
	}
	sort.Strings(out)
	return out
}

func loadVocab() {
	vocabOnce.Do(func() {
		vocabData.transformations = scrape("internal/transformations/transformations.go", reRegister)
		vocabData.actions = scrape("internal/actions/actions.go", reRegister)
		// operators register themselves in their own files
		ents, _ := os.ReadDir(filepath.Join(repoDir(), "internal/operators"))
		seen := map[string]bool{}
		for _, e := range ents {
			if strings.HasSuffix(e.Name(), "_test.go") || !strings.HasSuffix(e.Name(), ".go") {
				continue
			}
			for _, n := range scrape("internal/operators/"+e.Name(), reRegister) {
				if !seen[n] {
					seen[n] = true
					vocabData.operators = append(vocabData.operators, n)
				}
			}
		}
		sort.Strings(vocabData.operators)
		vocabData.directives = scrape("internal/seclang/directivesmap.gen.go", regexp.MustCompile(`"([a-z0-9_]+)":\s+directive`))
		vocabData.variables = scrape("internal/variables/variablesmap.gen.go", regexp.MustCompile(`case "([A-Z0-9_]+)":`))
		if len(vocabData.variables) == 0 {
			vocabData.variables = scrape("internal/variables/variablesmap.gen.go", regexp.MustCompile(`return "([A-Z0-9_]+)"`))
		}
	})
}
