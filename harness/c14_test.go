// C14 — Transformations are total, pure functions with sound change reports.
package verifharness

import (
	"bytes"
	"crypto/md5"
	"crypto/sha1"
	"fmt"
	"strconv"
	"strings"
	"testing"
	"unicode/utf8"
	"unsafe"

	"github.com/corazawaf/coraza/v3"
	"github.com/corazawaf/coraza/v3/internal/transformations"
	"pgregory.net/rapid"
)

type C14Case struct {
	Name  string `json:"name"`
	Input []byte `json:"input"`
}

type C14RuleCase struct {
	Chain []string `json:"chain"`
	Input []byte   `json:"input"`
}

// fragments biased towards every decoder's escape alphabet, complete and truncated.
var c14Fragments = []string{
	"%", "%4", "%41", "%zz", "%u", "%u0", "%u00", "%u004", "%u0041", "%uff21", "%U0041", "+", "%2b", "%00", "%25",
	"\\", "\\x", "\\x4", "\\x41", "\\u", "\\u0", "\\u00", "\\u004", "\\u0041", "\\uD83D", "\\0", "\\1", "\\12", "\\123", "\\777",
	"\\n", "\\t", "\\a", "\\b", "\\f", "\\r", "\\v", "\\\\", "\\?", "\\'", "\\\"", "\\z", "\\X41",
	"&", "&a", "&am", "&amp", "&amp;", "&lt;", "&gt", "&quot;", "&nbsp;", "&#", "&#x", "&#x4", "&#x41", "&#x41;", "&#6", "&#65", "&#65;", "&#0;", "&#x110000;", "&#xD800;", "&notit;",
	"/*", "*/", "/**/", "--", "#", "<!--", "-->", "<!-", "--!>", "/", "//", "/./", "/../", "..", "../", "./", "\\..\\", "\\.\\", "\\\\",
	" ", "  ", "\t", "\n", "\r", "\v", "\f", "\x00", "\x00\x00", "\xa0", "\xc2\xa0", "\xc2\x85", "\x85",
	// halves of multi-byte white space: removing what stands between them joins them into a character
	"\xc2", "\xe2\x80", "\xa8", "\xe2", "\x80\xa8", "\xe3\x80", "\xe1\x9a", "\x80",
	"\xc2 \xa0", "\xc2\t\x85", "\xe2\x80 \xa8", "\xe1\x9a\n\x80", "\xe3\x80\r\x80", "\xc2\x00\xa0",
	// nested: removing the blank forms U+00A0, removing that forms U+2000
	"\xe2\x80\xc2 \xa0\x80", "\xe3\x80\xc2\t\x85\x80", "\xe2\x80\xe2\x80 \xa8\xa8",
	"^", "\"", "'", ",", ";", "(", " (", "/ ", "\\ ",
	"\xff", "\xc0", "\xc0\xaf", "\xe2\x82", "\xe2\x82\xac", "\xf0\x9f\x98\x80", "\xed\xa0\x80", "é", "ſ", "K", "İ", "ǅ",
	"A", "a", "Z", "z", "0", "9", "f", "F", "g", "=", "==", "QQ==", "QUI=", "QUJD", "-", "_", ".",
	"41", "4a", "4A", "zz",
}

func genC14Input(t *rapid.T) []byte {
	n := rapid.IntRange(0, 10).Draw(t, "nfrag")
	var b []byte
	for i := 0; i < n; i++ {
		switch rapid.IntRange(0, 9).Draw(t, "kind") {
		case 0, 1:
			b = append(b, rapid.Byte().Draw(t, "byte"))
		case 2:
			// long-ish run of one fragment
			f := rapid.SampledFrom(c14Fragments).Draw(t, "runfrag")
			k := rapid.IntRange(2, 6).Draw(t, "run")
			for j := 0; j < k; j++ {
				b = append(b, f...)
			}
		default:
			b = append(b, rapid.SampledFrom(c14Fragments).Draw(t, "frag")...)
		}
	}
	if len(b) > 0 && rapid.IntRange(0, 3).Draw(t, "trunc") == 0 {
		b = b[:rapid.IntRange(0, len(b)).Draw(t, "cut")]
	}
	if len(b) > 64 {
		b = b[:64]
	}
	return b
}

func genC14(t *rapid.T) *C14Case {
	loadVocab()
	return &C14Case{
		Name:  rapid.SampledFrom(vocabData.transformations).Draw(t, "name"),
		Input: genC14Input(t),
	}
}

// triggers: bytes that make a transformation leave its fast path.
var c14Triggers = map[string]string{
	"urldecode": "%+", "urldecodeuni": "%+", "jsdecode": "\\", "cssdecode": "\\", "escapeseqdecode": "\\",
	"htmlentitydecode": "&", "cmdline": "\\\"'^ ,;/(\t\n\rABCDEFGHIJKLMNOPQRSTUVWXYZ", "compresswhitespace": " \t\n\r\v\f\xa0\x85",
	"removewhitespace": " \t\n\r\v\f\xa0\x85", "removenulls": "\x00", "replacenulls": "\x00", "removecomments": "/*-#<",
	"removecommentschar": "/*-#<>", "replacecomments": "/*", "normalisepath": "/.", "normalizepath": "/.",
	"normalisepathwin": "/.\\", "normalizepathwin": "/.\\", "trim": " \t\n\r\v\f", "trimleft": " \t\n\r\v\f", "trimright": " \t\n\r\v\f",
	"lowercase": "ABCDEFGHIJKLMNOPQRSTUVWXYZ", "uppercase": "abcdefghijklmnopqrstuvwxyz", "utf8tounicode": "\xc2\xc3\xe2\xf0\xff\xed",
	"base64decode": "=", "base64decodeext": "=", "hexdecode": "0123456789abcdefABCDEF",
}

// kept outputs of earlier calls, to detect buffer reuse ("never aliases").
type keptOut struct {
	name string
	out  string
	copy string
}

var c14Kept []keptOut

func isASCII(b []byte) bool {
	for _, c := range b {
		if c >= 0x80 {
			return false
		}
	}
	return true
}

func asciiLower(b []byte) string {
	o := make([]byte, len(b))
	for i, c := range b {
		if c >= 'A' && c <= 'Z' {
			c += 32
		}
		o[i] = c
	}
	return string(o)
}

func asciiUpper(b []byte) string {
	o := make([]byte, len(b))
	for i, c := range b {
		if c >= 'a' && c <= 'z' {
			c -= 32
		}
		o[i] = c
	}
	return string(o)
}

func callT(name string, in string) (out string, changed bool, err error, fail *Failure) {
	tr, gerr := transformations.GetTransformation(name)
	if gerr != nil {
		return "", false, nil, failf("transformation %q is registered in the source but not retrievable: %v", name, gerr)
	}
	fail = guard("t:"+name, func() { out, changed, err = tr(in) })
	return
}

func checkC14(c *C14Case) Result {
	res := Result{}
	name := strings.ToLower(c.Name)
	// the input string lives over harness-owned bytes so a write through it is visible
	own := append([]byte(nil), c.Input...)
	ref := append([]byte(nil), c.Input...)
	in := unsafe.String(unsafe.SliceData(own), len(own))
	if len(own) == 0 {
		in = ""
	}
	out, changed, err, f := callT(c.Name, in)
	if f != nil {
		res.Fail = f
		return res
	}
	if !bytes.Equal(own, ref) {
		res.Fail = failf("t:%s modified its input: before %q after %q", c.Name, ref, own)
		return res
	}
	outCopy := strings.Clone(out)
	out2, changed2, err2, f := callT(c.Name, string(ref))
	if f != nil {
		res.Fail = f
		return res
	}
	if out2 != outCopy || changed2 != changed || (err == nil) != (err2 == nil) {
		res.Fail = failf("t:%s is not deterministic on %q: (%q,%v,%v) then (%q,%v,%v)", c.Name, ref, outCopy, changed, err, out2, changed2, err2)
		return res
	}
	if out != outCopy {
		res.Fail = failf("t:%s output changed after a second call (buffer reuse): %q -> %q", c.Name, outCopy, out)
		return res
	}
	if err == nil && !changed && outCopy != string(ref) {
		res.Fail = failf("t:%s reports unchanged but output differs: in %q out %q", c.Name, ref, outCopy)
		return res
	}
	// outputs kept from earlier cases must never change
	for _, k := range c14Kept {
		if k.out != k.copy {
			res.Fail = failf("output of an earlier t:%s call was overwritten by a later call (t:%s on %q): %q -> %q", k.name, c.Name, ref, k.copy, k.out)
			c14Kept = nil
			return res
		}
	}
	if len(c14Kept) >= 16 {
		c14Kept = c14Kept[1:]
	}
	c14Kept = append(c14Kept, keptOut{c.Name, out, outCopy})

	// defining identities
	switch name {
	case "hexencode", "base64encode", "urlencode":
		dec := map[string]string{"hexencode": "hexDecode", "base64encode": "base64Decode", "urlencode": "urlDecode"}[name]
		back, _, derr, f := callT(dec, outCopy)
		if f != nil {
			res.Fail = f
			return res
		}
		if derr != nil || back != string(ref) {
			res.Fail = failf("%s(%s(x)) != x for x=%q: encoded %q decoded %q err %v", dec, c.Name, ref, outCopy, back, derr)
			return res
		}
	case "md5":
		s := md5.Sum(ref)
		if outCopy != string(s[:]) {
			res.Fail = failf("t:md5(%q) = %x, crypto/md5 says %x", ref, outCopy, s)
			return res
		}
	case "sha1":
		s := sha1.Sum(ref)
		if outCopy != string(s[:]) {
			res.Fail = failf("t:sha1(%q) = %x, crypto/sha1 says %x", ref, outCopy, s)
			return res
		}
	case "length":
		if outCopy != strconv.Itoa(len(ref)) {
			res.Fail = failf("t:length(%q) = %q want %d", ref, outCopy, len(ref))
			return res
		}
	case "lowercase":
		if isASCII(ref) && outCopy != asciiLower(ref) {
			res.Fail = failf("t:lowercase(%q) = %q want %q", ref, outCopy, asciiLower(ref))
			return res
		}
	case "uppercase":
		if isASCII(ref) && outCopy != asciiUpper(ref) {
			res.Fail = failf("t:uppercase(%q) = %q want %q", ref, outCopy, asciiUpper(ref))
			return res
		}
	}
	if name == "lowercase" || name == "uppercase" {
		// whatever the letter mapping is (C locale or Unicode), it is applied character by character: the result
		// of a concatenation is the concatenation of the results (cut at character boundaries), and mapping twice
		// changes nothing more
		for i := 0; i < len(ref); {
			_, sz := utf8.DecodeRune(ref[i:])
			i += sz
			if i >= len(ref) {
				break
			}
			a, _, _, fa := callT(c.Name, string(ref[:i]))
			b, _, _, fb := callT(c.Name, string(ref[i:]))
			if fa != nil || fb != nil {
				continue
			}
			if a+b != outCopy {
				res.Fail = failf("t:%s is not applied character by character: %s(%q)=%q but %s(%q)+%s(%q)=%q", c.Name, c.Name, ref, outCopy, c.Name, ref[:i], c.Name, ref[i:], a+b)
				return res
			}
		}
		if again, _, _, f := callT(c.Name, outCopy); f == nil && again != outCopy {
			res.Fail = failf("t:%s is not idempotent on %q: once %q twice %q", c.Name, ref, outCopy, again)
			return res
		}
	}
	switch name {
	case "none":
		if outCopy != string(ref) {
			res.Fail = failf("t:none(%q) = %q", ref, outCopy)
			return res
		}
	case "trim", "trimleft", "trimright", "removewhitespace", "compresswhitespace", "removenulls", "replacenulls":
		again, ch, aerr, f := callT(c.Name, outCopy)
		if f != nil {
			res.Fail = f
			return res
		}
		if aerr != nil || again != outCopy {
			res.Fail = failf("t:%s is not idempotent on %q: once %q twice %q", c.Name, ref, outCopy, again)
			return res
		}
		_ = ch
	}
	if name == "removenulls" && strings.ContainsRune(outCopy, 0) {
		res.Fail = failf("t:removeNulls left a NUL: %q -> %q", ref, outCopy)
		return res
	}
	if name == "trim" || name == "trimleft" {
		if len(outCopy) > 0 && strings.ContainsRune(" \t\n\r\f\v", rune(outCopy[0])) {
			res.Fail = failf("t:%s left leading whitespace: %q -> %q", c.Name, ref, outCopy)
			return res
		}
	}
	if name == "trim" || name == "trimright" {
		if len(outCopy) > 0 && strings.ContainsRune(" \t\n\r\f\v", rune(outCopy[len(outCopy)-1])) {
			res.Fail = failf("t:%s left trailing whitespace: %q -> %q", c.Name, ref, outCopy)
			return res
		}
	}

	res.Labels = append(res.Labels, "t:"+c.Name)
	trig, ok := c14Triggers[name]
	if !ok {
		res.NonTrivial = len(ref) > 0
	} else if bytes.ContainsAny(ref, trig) {
		res.NonTrivial = true
	}
	if res.NonTrivial {
		res.Labels = append(res.Labels, "nontrivial:"+c.Name)
	}
	if n := len(ref); n > 0 && (ref[n-1] == '%' || ref[n-1] == '\\' || ref[n-1] == '&' || (n > 1 && (ref[n-2] == '%' || ref[n-2] == '\\'))) {
		res.Labels = append(res.Labels, "truncated-escape-at-end")
	}
	if err != nil {
		res.Labels = append(res.Labels, "returned-error")
	}
	res.Key = append([]byte(c.Name+"\x00"), ref...)
	return res
}

func TestC14Direct(t *testing.T) {
	runProp(t, "C14", genC14, checkC14)
}

// ---- multiMatch / transformation lists through a real rule ------------------------------

func genC14Rule(t *rapid.T) *C14RuleCase {
	loadVocab()
	n := rapid.IntRange(1, 4).Draw(t, "len")
	c := &C14RuleCase{}
	for i := 0; i < n; i++ {
		c.Chain = append(c.Chain, rapid.SampledFrom(vocabData.transformations).Draw(t, "t"))
	}
	c.Input = genC14Input(t)
	return c
}

func checkC14Rule(c *C14RuleCase) Result {
	res := Result{}
	// expected values, computed by content from direct calls
	cur := string(c.Input)
	want := map[string]bool{cur: true}
	final := cur
	anyChange := false
	for _, name := range c.Chain {
		if strings.EqualFold(name, "none") {
			// t:none inside a list clears the list before it (documented); model it.
			want = map[string]bool{string(c.Input): true}
			cur = string(c.Input)
			final = cur
			continue
		}
		out, _, err, f := callT(name, cur)
		if f != nil {
			res.Fail = f
			return res
		}
		if err != nil {
			continue
		}
		if out != cur {
			want[out] = true
			anyChange = true
		}
		cur = out
		final = out
	}
	var tl []string
	for _, n := range c.Chain {
		tl = append(tl, "t:"+n)
	}
	for _, multi := range []bool{true, false} {
		acts := "id:1,phase:1,pass,t:none," + strings.Join(tl, ",")
		if multi {
			acts += ",multiMatch"
		}
		conf := fmt.Sprintf("SecRule REQUEST_HEADERS:x \"@unconditionalMatch\" \"%s\"", acts)
		var got map[string]bool
		f := guard("rule evaluation", func() {
			waf, err := coraza.NewWAF(coraza.NewWAFConfig().WithDirectives(conf))
			if err != nil {
				panic(fmt.Sprintf("NewWAF(%s): %v", conf, err))
			}
			tx := waf.NewTransaction()
			tx.AddRequestHeader("x", string(c.Input))
			tx.ProcessRequestHeaders()
			got = map[string]bool{}
			for _, mr := range tx.MatchedRules() {
				for _, md := range mr.MatchedDatas() {
					got[md.Value()] = true
				}
			}
			tx.ProcessLogging()
			_ = tx.Close()
			if cl, ok := waf.(interface{ Close() error }); ok {
				_ = cl.Close()
			}
		})
		if f != nil {
			res.Fail = f
			return res
		}
		exp := want
		if !multi {
			exp = map[string]bool{final: true}
		}
		if !sameSet(got, exp) {
			res.Fail = failf("rule %s on %q: evaluated values %q, want %q (multiMatch=%v)", conf, c.Input, setList(got), setList(exp), multi)
			return res
		}
	}
	res.NonTrivial = anyChange
	res.Labels = append(res.Labels, fmt.Sprintf("chain-len-%d", len(c.Chain)))
	if len(want) > 2 {
		res.Labels = append(res.Labels, "multimatch>=3-values")
	}
	return res
}

func sameSet(a, b map[string]bool) bool {
	if len(a) != len(b) {
		return false
	}
	for k := range a {
		if !b[k] {
			return false
		}
	}
	return true
}

func setList(a map[string]bool) []string {
	var l []string
	for k := range a {
		l = append(l, k)
	}
	sortStrings(l)
	return l
}

func TestC14Rule(t *testing.T) {
	runProp(t, "C14R", genC14Rule, checkC14Rule)
}

func init() {
	registerReplay("C14", func(c *C14Case) *Failure { return checkC14(c).Fail })
	registerReplay("C14R", func(c *C14RuleCase) *Failure { return checkC14Rule(c).Fail })
}
