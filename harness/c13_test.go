// C13 — A WAF follows its own configuration only; pattern caching is invisible.
package verifharness

import (
	"fmt"
	"os"
	"regexp"
	"strings"
	"testing"
	"testing/fstest"

	"github.com/corazawaf/coraza/v3"
	"github.com/corazawaf/coraza/v3/internal/memoize"
	"pgregory.net/rapid"
)

type C13Conf struct {
	Lines   []string `json:"lines"`
	Dataset []string `json:"dataset,omitempty"` // content of data set "ds"
	File    []string `json:"file,omitempty"`    // content of words.data in this WAF's root FS
	// SchemaReq: the property schema.json (same name and same $id in every root FS) requires
	SchemaReq string `json:"schema_requires,omitempty"`
}

type C13Op struct {
	Kind string `json:"kind"` // build | close | probe
	Conf int    `json:"conf"`
}

type C13Case struct {
	Confs []C13Conf `json:"confs"`
	Ops   []C13Op   `json:"ops"`
	Req   Req       `json:"request"`
	// NearPair: the strings of the case are two texts equal after case folding but of different meaning
	NearPair bool `json:"near_pair,omitempty"`
}

// strings used in several roles across configurations
var c13Strings = []string{"abc", "a+", "select", "x", "ab", "/p/{id}", "[a-c]+", "4\\d\\d", "admin", "\\d{3}", "Abc", "^X-Tok", "^[A-C]b"}
var c13Phrases = [][]string{{"abc", "select"}, {"zzz"}, {"admin", "x1"}, {"ab"}, {"union", "abc"},
	// lists that differ only in where the phrase boundaries fall
	{"ab", "c"}, {"a", "bc"}, {"abc"}, {"union", "select"}, {"unionselect"}}

func genC13Line(t *rapid.T, id int, s string) string {
	switch rapid.IntRange(0, 12).Draw(t, "role") {
	case 0:
		return fmt.Sprintf("SecRule ARGS \"@pm %s\" \"id:%d,phase:1,pass\"", s, id)
	case 1:
		return fmt.Sprintf("SecRule ARGS:/%s/ \"@rx .\" \"id:%d,phase:1,pass\"", s, id)
	case 2:
		return fmt.Sprintf("SecAction \"id:%d,phase:1,pass,ctl:ruleRemoveTargetById=%d;ARGS:/%s/\"", id, id+1, s)
	case 3:
		return fmt.Sprintf("SecRule REQUEST_URI \"@restpath %s\" \"id:%d,phase:1,pass\"", s, id)
	case 4:
		return fmt.Sprintf("SecRule ARGS \"@validateNid us %s\" \"id:%d,phase:1,pass\"", s, id)
	case 5:
		return fmt.Sprintf("SecRule ARGS \"@rx %s\" \"id:%d,phase:1,pass,capture,setvar:tx.c%d=+1\"", s, id, id)
	case 6:
		return fmt.Sprintf("SecRule ARGS \"@rx \\xff%s\" \"id:%d,phase:1,pass\"", s, id)
	case 7:
		return "SecAuditLogRelevantStatus " + s
	case 12: // a JSON schema file: same name, same $id, possibly another content in another WAF's root
		return fmt.Sprintf("SecRule ARGS_GET:j \"@validateSchema schema.json\" \"id:%d,phase:1,pass\"", id)
	case 10: // the same selector text on a case-insensitive collection compiles to a different (lower-cased) expression
		return fmt.Sprintf("SecRule %s:/%s/ \"@rx .\" \"id:%d,phase:1,pass\"", rapid.SampledFrom([]string{"REQUEST_HEADERS", "REQUEST_COOKIES", "REQUEST_HEADERS_NAMES"}).Draw(t, "civar"), s, id)
	case 11:
		return fmt.Sprintf("SecRule ARGS|!ARGS:/%s/ \"@rx .\" \"id:%d,phase:1,pass\"", s, id)
	case 8:
		return fmt.Sprintf("SecRule ARGS \"@pmFromDataset ds\" \"id:%d,phase:1,pass\"", id)
	default:
		return fmt.Sprintf("SecRule ARGS \"@pmFromFile words.data\" \"id:%d,phase:1,pass\"", id)
	}
}

func genC13(t *rapid.T) *C13Case {
	c := &C13Case{}
	nc := rapid.IntRange(2, 4).Draw(t, "nconfs")
	// few strings per case so that the same string shows up in several roles
	k := rapid.IntRange(1, 2).Draw(t, "nstrings")
	var pool []string
	for i := 0; i < k; i++ {
		pool = append(pool, rapid.SampledFrom(c13Strings).Draw(t, "s"))
	}
	if rapid.IntRange(0, 3).Draw(t, "nearpair") == 0 {
		// two texts that are equal once their letters are folded but do not mean the same
		pool = rapid.SampledFrom([][]string{{"(?i)^x-\\D+$", "(?i)^x-\\d+$"}, {"\\D{3}", "\\d{3}"}, {"(?i)^(?-i:ADMIN)$", "(?i)^(?-i:admin)$"}, {"^\\S+$", "^\\s+$"}, {"[A-C]x", "[a-c]x"}}).Draw(t, "pair")
		c.NearPair = true
	}
	for i := 0; i < nc; i++ {
		cf := C13Conf{}
		cf.Lines = append(cf.Lines, "SecRxPreFilter "+rapid.SampledFrom([]string{"On", "Off"}).Draw(t, "prefilter"))
		nl := rapid.IntRange(1, 4).Draw(t, "nlines")
		for j := 0; j < nl; j++ {
			cf.Lines = append(cf.Lines, genC13Line(t, 10+j*2, rapid.SampledFrom(pool).Draw(t, "str")))
		}
		cf.Dataset = rapid.SampledFrom(c13Phrases).Draw(t, "dataset")
		cf.File = rapid.SampledFrom(c13Phrases).Draw(t, "file")
		cf.SchemaReq = rapid.SampledFrom([]string{"a", "b", "zz"}).Draw(t, "schemareq")
		c.Confs = append(c.Confs, cf)
	}
	no := rapid.IntRange(2, 8).Draw(t, "nops")
	for i := 0; i < no; i++ {
		c.Ops = append(c.Ops, C13Op{Kind: rapid.SampledFrom([]string{"build", "build", "probe", "probe", "close"}).Draw(t, "op"), Conf: rapid.IntRange(0, nc-1).Draw(t, "conf")})
	}
	// make sure there is at least one probe at the end
	c.Ops = append(c.Ops, C13Op{Kind: "build", Conf: 0}, C13Op{Kind: "probe", Conf: 0})
	c.Req = Req{Method: "GET", Path: rapid.SampledFrom([]string{"/p/7", "/abc", "/"}).Draw(t, "path")}
	c.Req.Query = append(c.Req.Query, KV{"j", `{"a":"x"}`})
	c.Req.Headers = []KV{{"Host", "h"}, {rapid.SampledFrom([]string{"X-Token", "Abc", "abc", "x"}).Draw(t, "hn"), "hv"}}
	c.Req.Cookies = []KV{{rapid.SampledFrom([]string{"Abc", "X-Tok", "ab"}).Draw(t, "cn"), "cv"}}
	vals := []string{"abc", "aaa", "select 1", "x", "ab", "123-45-6789", "404", "admin", "zzz", "union", "\xffabc", "x1", "ABC", "c", "bc", "unionselect", "a"}
	if c.NearPair {
		vals = append(vals, "x-12", "x-ab", "ADMIN", "admin", "123", "abc", "   ", "Bx", "bx", "x-12", "x-ab", "ADMIN", "admin")
	}
	na := rapid.IntRange(2, 6).Draw(t, "nargs")
	for i := 0; i < na; i++ {
		c.Req.Query = append(c.Req.Query, KV{rapid.SampledFrom([]string{"a", "abc", "x", "select", "ab", "Abc", "X-Token"}).Draw(t, "an"), rapid.SampledFrom(vals).Draw(t, "av")})
	}
	return c
}

func (cf *C13Conf) build() (coraza.WAF, error) {
	conf := "SecRuleEngine On\nSecDataset ds `\n" + strings.Join(cf.Dataset, "\n") + "\n`\n" + strings.Join(cf.Lines, "\n") + "\n"
	root := fstest.MapFS{"words.data": &fstest.MapFile{Data: []byte(strings.Join(cf.File, "\n") + "\n")},
		"schema.json": &fstest.MapFile{Data: []byte(`{"$schema":"https://json-schema.org/draft/2020-12/schema","$id":"https://verif.example/schema.json","type":"object","required":["` + cf.SchemaReq + `"]}`)}}
	return coraza.NewWAF(coraza.NewWAFConfig().WithRootFS(root).WithDirectives(conf))
}

var reC13SchemaRule = regexp.MustCompile(`@validateSchema schema\.json" "id:(\d+),phase:1`)

func c13Probe(w coraza.WAF, r *Req) (string, *Failure) {
	o, f := runCanonical(w, r)
	if f != nil {
		return "", f
	}
	return canonOutcome(o), nil
}

func checkC13(c *C13Case) Result {
	res := Result{}
	// phase 1: every configuration alone, from an empty cache
	solo := make([]string, len(c.Confs))
	soloErr := make([]error, len(c.Confs))
	for i := range c.Confs {
		memoize.Reset()
		var w coraza.WAF
		var err error
		if f := guard("solo NewWAF", func() { w, err = c.Confs[i].build() }); f != nil {
			res.Fail = f
			return res
		}
		soloErr[i] = err
		if err != nil {
			continue
		}
		s, f := c13Probe(w, &c.Req)
		closeWAF(w)
		if f != nil {
			res.Fail = f
			return res
		}
		solo[i] = s
	}
	memoize.Reset()
	// phase 2: the history
	live := map[int][]coraza.WAF{}
	desc := func() string {
		var sb strings.Builder
		for i, cf := range c.Confs {
			fmt.Fprintf(&sb, "config %d (dataset %q, words.data %q):\n  %s\n", i, cf.Dataset, cf.File, strings.Join(cf.Lines, "\n  "))
		}
		fmt.Fprintf(&sb, "ops: %v\nrequest: %s", c.Ops, c.Req.URI())
		return sb.String()
	}
	defer func() {
		for _, ws := range live {
			for _, w := range ws {
				closeWAF(w)
			}
		}
	}()
	var outcomes []string
	shared := false
	for step, op := range c.Ops {
		switch op.Kind {
		case "build":
			var w coraza.WAF
			var err error
			if f := guard("NewWAF in history", func() { w, err = c.Confs[op.Conf].build() }); f != nil {
				f.Msg += "\n" + desc()
				res.Fail = f
				return res
			}
			if (err == nil) != (soloErr[op.Conf] == nil) {
				res.Fail = failf("step %d: building configuration %d in this history gives error=%v, alone it gives error=%v\n%s", step, op.Conf, err, soloErr[op.Conf], desc())
				return res
			}
			if err == nil {
				if len(live) > 0 {
					shared = true
				}
				live[op.Conf] = append(live[op.Conf], w)
			}
		case "close":
			if ws := live[op.Conf]; len(ws) > 0 {
				closeWAF(ws[0])
				live[op.Conf] = ws[1:]
				if len(live[op.Conf]) == 0 {
					delete(live, op.Conf)
				}
			}
		case "probe":
			ws := live[op.Conf]
			if len(ws) == 0 {
				continue
			}
			s, f := c13Probe(ws[len(ws)-1], &c.Req)
			if f != nil {
				f.Msg += "\n" + desc()
				res.Fail = f
				return res
			}
			outcomes = append(outcomes, fmt.Sprintf("step %d conf %d: %s", step, op.Conf, s))
			// the schema role has a direct expectation (the "alone" baseline shares the process with every earlier
			// case, so state that memoize.Reset does not clear would already be in it): {"a":"x"} violates the
			// schema, and the rule fires, exactly when the WAF's own schema.json requires something else than "a"
			for _, l := range c.Confs[op.Conf].Lines {
				if m := reC13SchemaRule.FindStringSubmatch(l); m != nil {
					fired := strings.Contains(s, "rule "+m[1]+":")
					if want := c.Confs[op.Conf].SchemaReq != "a"; fired != want {
						res.Fail = failf("step %d: configuration %d: @validateSchema rule %s fired=%v on %s, but its own schema.json requires %q (expected fired=%v)\n%s", step, op.Conf, m[1], fired, `{"a":"x"}`, c.Confs[op.Conf].SchemaReq, want, desc())
						return res
					}
				}
			}
			if s != solo[op.Conf] {
				res.Fail = failf("step %d: configuration %d behaves differently in this history than when built alone:\n--- alone\n%s--- in the history\n%s\n%s", step, op.Conf, solo[op.Conf], s, desc())
				return res
			}
		}
	}
	// for the two-build differential (default vs coraza.no_memoize): one line per case, in
	// generation order (rapid is deterministic for a given seed, so both builds see the same cases)
	key, _ := jsonMarshal(c)
	outHash := hash64([]byte(strings.Join(outcomes, "\n") + fmt.Sprint(soloErr)))
	c13LastOutcome = fmt.Sprintf("%x", outHash)
	if p := os.Getenv("VERIF_C13_OUT"); p != "" {
		if fh, err := os.OpenFile(p, os.O_APPEND|os.O_CREATE|os.O_WRONLY, 0o644); err == nil {
			fmt.Fprintf(fh, "%x %x\n", hash64(key), outHash)
			fh.Close()
		}
		if want := os.Getenv("VERIF_C13_DUMPKEY"); want != "" && want == fmt.Sprintf("%x", hash64(key)) {
			recordFailureTo(os.Getenv("VERIF_C13_DUMPFILE"), "C13N", c, &Failure{Msg: "outcome differs between the default build and the coraza.no_memoize build"})
		}
	}
	// labels: equal strings in different roles / different content under one name
	roleOf := func(l string) string {
		switch {
		case strings.Contains(l, "@pm "):
			return "pm"
		case strings.Contains(l, "REQUEST_HEADERS:/") || strings.Contains(l, "REQUEST_COOKIES:/") || strings.Contains(l, "REQUEST_HEADERS_NAMES:/"):
			return "key-rx-case-insensitive"
		case strings.Contains(l, "ARGS:/") && strings.Contains(l, "ctl:"):
			return "ctl-rx"
		case strings.Contains(l, "ARGS:/"):
			return "key-rx"
		case strings.Contains(l, "@restpath"):
			return "restpath"
		case strings.Contains(l, "@validateNid"):
			return "nid"
		case strings.Contains(l, "\\xff"):
			return "binary-rx"
		case strings.Contains(l, "@rx"):
			return "rx"
		case strings.Contains(l, "RelevantStatus"):
			return "status"
		case strings.Contains(l, "pmFromDataset"):
			return "dataset"
		case strings.Contains(l, "pmFromFile"):
			return "file"
		case strings.Contains(l, "@validateSchema"):
			return "schema"
		}
		return ""
	}
	roles := map[string]bool{}
	dsContents, fileContents := map[string]bool{}, map[string]bool{}
	for _, cf := range c.Confs {
		for _, l := range cf.Lines {
			if r := roleOf(l); r != "" {
				roles[r] = true
				if r == "dataset" {
					dsContents[strings.Join(cf.Dataset, ",")] = true
				}
				if r == "file" {
					fileContents[strings.Join(cf.File, ",")] = true
				}
			}
		}
	}
	for r := range roles {
		res.Labels = append(res.Labels, "role:"+r)
	}
	if c.NearPair {
		res.Labels = append(res.Labels, "texts-equal-after-case-folding")
	}
	if len(dsContents) > 1 {
		res.Labels = append(res.Labels, "same-dataset-name-different-content")
	}
	if len(fileContents) > 1 {
		res.Labels = append(res.Labels, "same-file-name-different-root")
	}
	if shared {
		res.Labels = append(res.Labels, "two-wafs-alive")
	}
	res.NonTrivial = shared && (len(roles) >= 2 || len(dsContents) > 1 || len(fileContents) > 1) && len(outcomes) > 0
	return res
}

var c13LastOutcome string

func TestC13(t *testing.T) {
	runProp(t, "C13", genC13, checkC13)
}

func init() {
	registerReplay("C13", func(c *C13Case) *Failure { return checkC13(c).Fail })
	// C13N: a case whose outcome differs between the two builds; the driver replays it with both
	// binaries and compares the printed outcome hashes
	registerReplay("C13N", func(c *C13Case) *Failure {
		f := checkC13(c).Fail
		fmt.Printf("C13-OUTCOME %s\n", c13LastOutcome)
		return f
	})
}
