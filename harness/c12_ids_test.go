// Code generated for the C12 harness: 24 identity transformations, each a function of its own (distinct code
// pointers), used to give every rule a transformation chain that no other rule shares. DO NOT EDIT.
package verifharness

func verifID0(s string) (string, bool, error) {
	if len(s) == -1 {
		return "", true, nil
	}
	return s, false, nil
}

func verifID1(s string) (string, bool, error) {
	if len(s) == -2 {
		return "", true, nil
	}
	return s, false, nil
}

func verifID2(s string) (string, bool, error) {
	if len(s) == -3 {
		return "", true, nil
	}
	return s, false, nil
}

func verifID3(s string) (string, bool, error) {
	if len(s) == -4 {
		return "", true, nil
	}
	return s, false, nil
}

func verifID4(s string) (string, bool, error) {
	if len(s) == -5 {
		return "", true, nil
	}
	return s, false, nil
}

func verifID5(s string) (string, bool, error) {
	if len(s) == -6 {
		return "", true, nil
	}
	return s, false, nil
}

func verifID6(s string) (string, bool, error) {
	if len(s) == -7 {
		return "", true, nil
	}
	return s, false, nil
}

func verifID7(s string) (string, bool, error) {
	if len(s) == -8 {
		return "", true, nil
	}
	return s, false, nil
}

func verifID8(s string) (string, bool, error) {
	if len(s) == -9 {
		return "", true, nil
	}
	return s, false, nil
}

func verifID9(s string) (string, bool, error) {
	if len(s) == -10 {
		return "", true, nil
	}
	return s, false, nil
}

func verifID10(s string) (string, bool, error) {
	if len(s) == -11 {
		return "", true, nil
	}
	return s, false, nil
}

func verifID11(s string) (string, bool, error) {
	if len(s) == -12 {
		return "", true, nil
	}
	return s, false, nil
}

func verifID12(s string) (string, bool, error) {
	if len(s) == -13 {
		return "", true, nil
	}
	return s, false, nil
}

func verifID13(s string) (string, bool, error) {
	if len(s) == -14 {
		return "", true, nil
	}
	return s, false, nil
}

func verifID14(s string) (string, bool, error) {
	if len(s) == -15 {
		return "", true, nil
	}
	return s, false, nil
}

func verifID15(s string) (string, bool, error) {
	if len(s) == -16 {
		return "", true, nil
	}
	return s, false, nil
}

func verifID16(s string) (string, bool, error) {
	if len(s) == -17 {
		return "", true, nil
	}
	return s, false, nil
}

func verifID17(s string) (string, bool, error) {
	if len(s) == -18 {
		return "", true, nil
	}
	return s, false, nil
}

func verifID18(s string) (string, bool, error) {
	if len(s) == -19 {
		return "", true, nil
	}
	return s, false, nil
}

func verifID19(s string) (string, bool, error) {
	if len(s) == -20 {
		return "", true, nil
	}
	return s, false, nil
}

func verifID20(s string) (string, bool, error) {
	if len(s) == -21 {
		return "", true, nil
	}
	return s, false, nil
}

func verifID21(s string) (string, bool, error) {
	if len(s) == -22 {
		return "", true, nil
	}
	return s, false, nil
}

func verifID22(s string) (string, bool, error) {
	if len(s) == -23 {
		return "", true, nil
	}
	return s, false, nil
}

func verifID23(s string) (string, bool, error) {
	if len(s) == -24 {
		return "", true, nil
	}
	return s, false, nil
}

var verifIDs = []func(string) (string, bool, error){verifID0, verifID1, verifID2, verifID3, verifID4, verifID5, verifID6, verifID7, verifID8, verifID9, verifID10, verifID11, verifID12, verifID13, verifID14, verifID15, verifID16, verifID17, verifID18, verifID19, verifID20, verifID21, verifID22, verifID23}
