// C20 — (c) a request handed over as a byte stream (Transaction.ParseRequestReader): a body the reader cannot
// deliver completely has to surface as an error, an interruption or an error variable, never as an inspected body.
package verifharness

import (
	"bytes"
	"fmt"
	"io"
	"strings"
	"testing"

	"github.com/corazawaf/coraza/v3/internal/corazawaf"
	"pgregory.net/rapid"
)

type C20ReaderCase struct {
	CType string `json:"content_type"`
	Lines []int  `json:"line_lengths"` // body lines, in bytes
	CRLF  bool   `json:"crlf"`
}

func genC20Reader(t *rapid.T) *C20ReaderCase {
	c := &C20ReaderCase{CType: rapid.SampledFrom([]string{"application/x-www-form-urlencoded", "text/plain"}).Draw(t, "ctype"), CRLF: rapid.Bool().Draw(t, "crlf")}
	for i, n := 0, rapid.IntRange(1, 3).Draw(t, "nlines"); i < n; i++ {
		c.Lines = append(c.Lines, rapid.SampledFrom([]int{1, 10, 1000, 4096, 65535, 65536, 65537, 70000, 200000}).Draw(t, "len"))
	}
	if c.CType == "application/x-www-form-urlencoded" {
		c.Lines = c.Lines[:1]
	}
	return c
}

func checkC20Reader(c *C20ReaderCase) Result {
	res := Result{}
	w, err := newWAF("SecRuleEngine On\nSecRequestBodyAccess On\nSecRequestBodyLimit 1000000\nSecRequestBodyInMemoryLimit 1000000\n" +
		"SecRule REQBODY_ERROR|INBOUND_DATA_ERROR|REQBODY_PROCESSOR_ERROR \"@eq 1\" \"id:4,phase:2,pass,nolog\"\n")
	if err != nil {
		res.Fail = failf("configuration rejected: %v", err)
		return res
	}
	defer closeWAF(w)
	eol := "\n"
	if c.CRLF {
		eol = "\r\n"
	}
	var body []string
	total := 0
	for i, n := range c.Lines {
		l := "a=" + strings.Repeat(string(rune('b'+i)), n)
		if len(l) > n && n >= 2 {
			l = l[:n]
		}
		body = append(body, l)
		total += len(l)
	}
	raw := "POST /p HTTP/1.1" + eol + "Host: h" + eol + "Content-Type: " + c.CType + eol + eol + strings.Join(body, eol)
	var retErr error
	interrupted, flagged := false, false
	stored := -1
	if f := guard("ParseRequestReader", func() {
		tx := w.NewTransaction().(*corazawaf.Transaction)
		defer func() { _ = tx.Close() }()
		it, err := tx.ParseRequestReader(bytes.NewReader([]byte(raw)))
		retErr, interrupted = err, it != nil
		for _, mr := range tx.MatchedRules() {
			if mr.Rule().ID() == 4 {
				flagged = true
			}
		}
		// what the transaction holds of the body (REQUEST_BODY itself is only filled by some body processors)
		if rd, err := tx.RequestBodyReader(); err == nil && rd != nil {
			n, _ := io.Copy(io.Discard, rd)
			stored = int(n)
		}
		tx.ProcessLogging()
	}); f != nil {
		res.Fail = f
		return res
	}
	long := false
	for _, n := range c.Lines {
		if n >= 65536 {
			long = true
		}
	}
	if long {
		res.Labels = append(res.Labels, "reader-body-line-longer-than-64k")
	}
	res.NonTrivial = long
	if retErr != nil || interrupted || flagged {
		res.Labels = append(res.Labels, "reader-failure-surfaced")
		return res
	}
	// nothing was signalled: the body is treated as inspected, so every byte of it has to be there (the helper adds a
	// line end per line for non-urlencoded bodies; at least the bytes sent are required)
	if stored < total {
		res.Fail = failf("ParseRequestReader returned no error, no interruption and no error variable, but the transaction holds %d of the %d body bytes sent (content type %s, line lengths %v): the rest was dropped and the body treated as inspected", stored, total, c.CType, c.Lines)
		return res
	}
	res.Labels = append(res.Labels, "reader-body-complete")
	return res
}

func TestC20Reader(t *testing.T) {
	runProp(t, "C20R", genC20Reader, checkC20Reader)
}

func init() {
	registerReplay("C20R", func(c *C20ReaderCase) *Failure { return checkC20Reader(c).Fail })
	_ = fmt.Sprint
}
