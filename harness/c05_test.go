// C05 — Transactions are isolated from earlier transactions on the same WAF.
package verifharness

import (
	"fmt"
	"io"
	"runtime/debug"
	"strings"
	"testing"

	"github.com/corazawaf/coraza/v3"
	"github.com/corazawaf/coraza/v3/internal/corazawaf"
	"github.com/corazawaf/coraza/v3/types"
	"pgregory.net/rapid"
)

type Pred struct {
	Req         Req  `json:"request"`
	StopAfter   int  `json:"stop_after"` // number of script calls executed (-1: all)
	SkipLogging bool `json:"skip_logging,omitempty"`
	DoubleClose bool `json:"double_close,omitempty"`
	GrabReader  bool `json:"grab_reader,omitempty"`
}

type C05Case struct {
	RS    RuleSet `json:"ruleset"`
	Preds []Pred  `json:"predecessors"`
	Probe Req     `json:"probe"`
}

const c05Conds = 8

// residual-state leaving actions; every one is conditional on a request argument
var c05Leavers = []struct {
	label    string
	acts     []string
	disr     string
	maxPhase int
	flow     string
}{
	{"ctl-ruleEngine", []string{"ctl:ruleEngine=DetectionOnly"}, "pass", 4, ""},
	{"ctl-ruleEngine-off", []string{"ctl:ruleEngine=Off"}, "pass", 4, ""},
	{"ctl-auditEngine", []string{"ctl:auditEngine=On"}, "pass", 4, ""},
	{"ctl-auditLogParts", []string{"ctl:auditLogParts=+E"}, "pass", 4, ""},
	{"ctl-auditLogParts-remove", []string{"ctl:auditLogParts=-C"}, "pass", 4, ""},
	{"ctl-auditLogParts-remove2", []string{"ctl:auditLogParts=-BH"}, "pass", 4, ""},
	{"ctl-auditLogParts-set", []string{"ctl:auditLogParts=ABZ"}, "pass", 4, ""},
	{"ctl-ruleRemoveByTag", []string{"ctl:ruleRemoveByTag=reader"}, "pass", 4, ""},
	{"ctl-ruleRemoveTargetByTag", []string{"ctl:ruleRemoveTargetByTag=reader;ARGS_GET:x"}, "pass", 4, ""},
	{"ctl-responseBodyLimit", []string{"ctl:responseBodyLimit=7"}, "pass", 3, ""},
	{"ctl-requestBodyAccess", []string{"ctl:requestBodyAccess=Off"}, "pass", 1, ""},
	{"ctl-requestBodyLimit", []string{"ctl:requestBodyLimit=5"}, "pass", 1, ""},
	{"ctl-forceRequestBodyVariable", []string{"ctl:forceRequestBodyVariable=On"}, "pass", 1, ""},
	{"ctl-requestBodyProcessor", []string{"ctl:requestBodyProcessor=JSON"}, "pass", 1, ""},
	{"ctl-responseBodyProcessor", []string{"ctl:responseBodyProcessor=JSON"}, "pass", 3, ""},
	{"ctl-responseBodyAccess", []string{"ctl:responseBodyAccess=Off"}, "pass", 3, ""},
	{"ctl-ruleRemoveById", []string{"ctl:ruleRemoveById=701"}, "pass", 4, ""},
	{"ctl-ruleRemoveById-range", []string{"ctl:ruleRemoveById=700-705"}, "pass", 4, ""},
	{"ctl-ruleRemoveTargetById", []string{"ctl:ruleRemoveTargetById=710;ARGS_GET:x"}, "pass", 4, ""},
	{"skip", nil, "pass", 5, "skip"},
	{"skipAfter-absent", nil, "pass", 5, "skipAfterAbsent"},
	{"skipAfter", nil, "pass", 5, "skipAfter"},
	{"allow", nil, "allow", 4, ""},
	{"allow-phase", nil, "allow:phase", 5, ""},
	{"allow-request", nil, "allow:request", 5, ""},
	{"deny", nil, "deny", 4, ""},
	{"drop", nil, "drop", 4, ""},
	{"redirect", nil, "redirect", 4, ""},
	{"setvar", []string{"setvar:tx.leak=1", "setvar:tx.score=+5"}, "pass", 5, ""},
	{"severity", []string{"severity:1"}, "pass", 5, ""},
	{"log-auditlog", []string{"log", "auditlog"}, "pass", 5, ""},
}

func genC05Req(t *rapid.T, label string) Req {
	r := Req{Method: "POST", Path: "/p", Headers: []KV{{"Host", "h"}}}
	for k := 1; k <= c05Conds; k++ {
		v := "0"
		if rapid.IntRange(0, 2).Draw(t, label+"on") == 0 {
			v = "1"
		}
		r.Query = append(r.Query, KV{fmt.Sprintf("c%d", k), v})
	}
	r.Query = append(r.Query, KV{"x", rapid.SampledFrom([]string{"abc", "secret-123", ""}).Draw(t, label+"x")})
	switch rapid.IntRange(0, 4).Draw(t, label+"body") {
	case 0:
	case 1:
		r.Post = []KV{{"p", "short"}}
	case 2:
		r.Post = []KV{{"p", strings.Repeat("L", rapid.IntRange(20, 120).Draw(t, label+"len"))}, {"q", "z"}} // spills to disk
	case 3:
		r.ContentType = "application/json"
		r.RawBody = []byte(rapid.SampledFrom([]string{`{"a":"b","n":[1,2]}`, `{"a":`, `{"k":"` + strings.Repeat("v", 40) + `"}`}).Draw(t, label+"json"))
	case 4:
		r.ContentType = "multipart/form-data; boundary=bb"
		r.RawBody = []byte("--bb\r\nContent-Disposition: form-data; name=\"f\"; filename=\"x.txt\"\r\n\r\nfile-content\r\n--bb\r\nContent-Disposition: form-data; name=\"a\"\r\n\r\nv\r\n--bb--\r\n")
	}
	r.RespStatus = rapid.SampledFrom([]int{200, 404, 500}).Draw(t, label+"status")
	r.RespHeaders = []KV{{"Content-Type", rapid.SampledFrom([]string{"text/plain", "application/json", "image/png"}).Draw(t, label+"rct")}}
	r.RespBody = []byte(rapid.SampledFrom([]string{"", "response text", `{"r":1}`, `{"r":`, strings.Repeat("R", 70)}).Draw(t, label+"rbody"))
	return r
}

func genC05(t *rapid.T) *C05Case {
	c := &C05Case{}
	c.RS.Pre = []string{"SecRuleEngine On", "SecRequestBodyAccess On", "SecResponseBodyAccess On", "SecResponseBodyMimeType text/plain application/json",
		"SecRequestBodyLimit 100", "SecRequestBodyInMemoryLimit 16", "SecResponseBodyLimit 60",
		"SecRequestBodyLimitAction " + rapid.SampledFrom([]string{"ProcessPartial", "Reject"}).Draw(t, "limitaction"),
		"SecAuditEngine " + rapid.SampledFrom([]string{"Off", "RelevantOnly", "On"}).Draw(t, "auditengine"),
		"SecAuditLogParts " + rapid.SampledFrom([]string{"ABCFHZ", "ABCEFHIJKZ", "ABHZ"}).Draw(t, "auditparts"),
		"SecAuditLogRelevantStatus ^[45]", "SecAuditLog " + tmpPlaceholder + "/c05-audit.log",
		"SecUploadDir " + tmpPlaceholder}
	// readers: rules that expose state to the outcome
	items := []Item{}
	add := func(r *Rule) { items = append(items, Item{Rule: r}) }
	for p := 1; p <= 5; p++ {
		add(&Rule{ID: 700 + p - 1, Phase: p, SecAction: true, Disr: "pass"}) // tracers 700..704
	}
	add(&Rule{ID: 705, Phase: 2, Targets: []Target{{Var: "ARGS_GET", Key: "x"}, {Var: "ARGS_POST"}}, Op: "rx", Arg: "(sec)(ret)-(\\d+)|L+|v", Capture: true, Disr: "pass",
		Acts: []string{"setvar:tx.cap1=%{tx.1}", "setvar:tx.cap3=%{tx.3}"}})
	add(&Rule{ID: 706, Phase: 5, Targets: []Target{{Var: "TX"}}, Op: "rx", Arg: ".", Disr: "pass"})
	add(&Rule{ID: 707, Phase: 5, Targets: []Target{{Var: "REQUEST_BODY"}, {Var: "ARGS_POST"}, {Var: "FILES"}, {Var: "REQBODY_ERROR"}, {Var: "REQBODY_PROCESSOR"},
		{Var: "RESPONSE_BODY"}, {Var: "INBOUND_DATA_ERROR"}, {Var: "OUTBOUND_DATA_ERROR"}, {Var: "HIGHEST_SEVERITY"}, {Var: "MULTIPART_STRICT_ERROR"}, {Var: "RESPONSE_ARGS"},
		{Var: "FILES_COMBINED_SIZE"}, {Var: "REQUEST_BODY_LENGTH"}, {Var: "RESPONSE_CONTENT_LENGTH"}, {Var: "XML"}, {Var: "RESPONSE_CONTENT_TYPE"}, {Var: "URLENCODED_ERROR"}},
		Op: "unconditionalMatch", Disr: "pass"})
	add(&Rule{ID: 710, Phase: 2, Targets: []Target{{Var: "ARGS_GET"}}, Op: "rx", Arg: "^secret", Disr: "pass", Acts: []string{"setvar:tx.sawsecret=1", "tag:'reader'"}})
	// leavers
	n := rapid.IntRange(2, 6).Draw(t, "nleavers")
	id := 720
	for i := 0; i < n; i++ {
		l := rapid.SampledFrom(c05Leavers).Draw(t, "leaver")
		id++
		r := &Rule{ID: id, Phase: rapid.IntRange(1, l.maxPhase).Draw(t, "lphase"), Disr: l.disr, Acts: append([]string{"tag:'" + l.label + "'"}, l.acts...)}
		genFlowCond(t, r, c05Conds)
		switch l.flow {
		case "skip":
			r.Skip = rapid.IntRange(1, 3).Draw(t, "skipn")
		case "skipAfterAbsent":
			r.SkipAfter = "ABSENT"
		case "skipAfter":
			r.SkipAfter = "END"
		}
		if r.Disr == "redirect" {
			r.Redirect = "http://r/"
		}
		pos := rapid.IntRange(0, len(items)).Draw(t, "pos")
		items = append(items[:pos], append([]Item{{Rule: r}}, items[pos:]...)...)
	}
	items = append(items, Item{Marker: "END"})
	c.RS.Items = items
	np := rapid.IntRange(1, 3).Draw(t, "npreds")
	for i := 0; i < np; i++ {
		p := Pred{Req: genC05Req(t, "pred"), StopAfter: -1}
		if rapid.IntRange(0, 2).Draw(t, "truncate") == 0 {
			p.StopAfter = rapid.IntRange(0, 12).Draw(t, "stopafter")
		}
		p.SkipLogging = rapid.IntRange(0, 3).Draw(t, "skiplogging") == 0
		p.DoubleClose = rapid.IntRange(0, 5).Draw(t, "doubleclose") == 0
		p.GrabReader = rapid.Bool().Draw(t, "grabreader")
		c.Preds = append(c.Preds, p)
	}
	c.Probe = genC05Req(t, "probe")
	return c
}

// runPred executes a predecessor transaction; it returns the transaction object (for the reuse
// measurement) and body readers obtained before Close.
func runPred(w coraza.WAF, p *Pred) (obj *corazawaf.Transaction, readers []io.Reader, fail *Failure) {
	fail = guard("predecessor transaction", func() {
		tx := w.NewTransaction()
		obj, _ = tx.(*corazawaf.Transaction)
		script := canonicalScript(&p.Req)
		if p.SkipLogging {
			script = script[:len(script)-1]
		}
		if p.StopAfter >= 0 && p.StopAfter < len(script) {
			script = script[:p.StopAfter]
		}
		for _, c := range script {
			var it *types.Interruption
			switch c.Op {
			case "conn":
				tx.ProcessConnection("10.0.0.9", 1234, "10.0.0.2", 80)
			case "uri":
				tx.ProcessURI(p.Req.URI(), p.Req.Method, "HTTP/1.1")
			case "hdr":
				tx.AddRequestHeader(c.K, c.V)
			case "p1":
				it = tx.ProcessRequestHeaders()
			case "wreq":
				it, _, _ = tx.WriteRequestBody(c.Data)
			case "p2":
				it, _ = tx.ProcessRequestBody()
			case "rhdr":
				tx.AddResponseHeader(c.K, c.V)
			case "p3":
				it = tx.ProcessResponseHeaders(c.Code, "HTTP/1.1")
			case "wresp":
				it, _, _ = tx.WriteResponseBody(c.Data)
			case "p4":
				it, _ = tx.ProcessResponseBody()
			case "p5":
				tx.ProcessLogging()
			}
			if it != nil && c.Op != "p5" {
				// connectors stop on interruption and go to logging
				if !p.SkipLogging {
					tx.ProcessLogging()
				}
				break
			}
		}
		if p.GrabReader {
			if r, err := tx.RequestBodyReader(); err == nil && r != nil {
				readers = append(readers, r)
			}
			if r, err := tx.ResponseBodyReader(); err == nil && r != nil {
				readers = append(readers, r)
			}
		}
		_ = tx.Close()
		if p.DoubleClose {
			_ = tx.Close()
		}
	})
	return
}

func c05Mask(path string) bool {
	for _, suf := range []string{".id", ".context", ".Timestamp", ".debugLogger", ".WAF", ".stopWatches", ".transformationCache", ".lastRead"} {
		if strings.HasSuffix(path, suf) {
			return true
		}
	}
	for _, frag := range []string{".variables.time", ".variables.uniqueID", ".variables.duration"} {
		if strings.Contains(path, frag) {
			return true
		}
	}
	return false
}

// c05WAFMask hides what legitimately differs between two WAFs built from the same configuration:
// the transaction pool, loggers/writers (open files) and lock state.
func c05WAFMask(path string) bool {
	for _, frag := range []string{".txPool", ".memoizerID", ".ownerID", ".Logger", ".auditLogWriter", ".AuditLogWriter", ".ErrorLogCb", ".mu", ".mutex", ".closers"} {
		if strings.Contains(path, frag) {
			return true
		}
	}
	return false
}

// runProbe is runCanonical plus the body readers' contents.
func runProbe(w coraza.WAF, r *Req) (string, *Failure) {
	o, f := runCanonical(w, r)
	if f != nil {
		return "", f
	}
	return canonOutcome(o), nil
}

func checkC05(c *C05Case) Result {
	res := Result{}
	conf := c.RS.Render()
	old := debug.SetGCPercent(-1) // keep sync.Pool from dropping the recycled object between predecessor and probe
	defer debug.SetGCPercent(old)

	used, err := newWAF(conf)
	if err != nil {
		res.Fail = failf("configuration rejected: %v\n%s", err, conf)
		return res
	}
	defer closeWAF(used)
	var predObjs []*corazawaf.Transaction
	var readers []io.Reader
	for i := range c.Preds {
		obj, rds, f := runPred(used, &c.Preds[i])
		if f != nil {
			res.Fail = f
			return res
		}
		predObjs = append(predObjs, obj)
		readers = append(readers, rds...)
	}
	// readers handed out by closed transactions yield no further data
	for i, r := range readers {
		buf := make([]byte, 64)
		var n int
		if f := guard("read from a reader of a closed transaction", func() { n, _ = r.Read(buf) }); f != nil {
			res.Fail = f
			return res
		}
		if n != 0 {
			res.Fail = failf("body reader #%d obtained before Close still returned %d bytes after Close: %q\nconfig:\n%s", i, n, buf[:n], conf)
			return res
		}
	}
	// structural: the recycled object equals a brand-new one
	fresh, err := newWAF(conf)
	if err != nil {
		res.Fail = failf("configuration rejected: %v", err)
		return res
	}
	defer closeWAF(fresh)
	reused := false
	var structural *Failure
	f := guard("structural comparison", func() {
		txU := used.NewTransactionWithID("same-id").(*corazawaf.Transaction)
		txF := fresh.NewTransactionWithID("same-id").(*corazawaf.Transaction)
		for _, p := range predObjs {
			if p == txU {
				reused = true
			}
		}
		du := deepDump(txU, c05Mask)
		df := deepDump(txF, c05Mask)
		// the WAF itself (configuration and compiled rules shared by every transaction) is as it was built
		if d := diffDumps(deepDump(txF.WAF, c05WAFMask), deepDump(txU.WAF, c05WAFMask)); d != "" {
			structural = failf("the WAF that served %d transactions differs from a freshly built one (- fresh, + used):\n%s\nconfig:\n%s\npredecessors: %s", len(c.Preds), d, conf, describePreds(c.Preds))
			return
		}
		if d := diffDumps(df, du); d != "" {
			structural = failf("a recycled transaction object differs from a brand-new one (- new, + recycled):\n%s\nconfig:\n%s\npredecessors: %s", d, conf, describePreds(c.Preds))
		}
		_ = txU.Close()
		_ = txF.Close()
	})
	if f == nil {
		f = structural
	}
	if f != nil {
		res.Fail = f
		return res
	}
	// readers of closed transactions must stay silent while the recycled object holds a new body
	if len(readers) > 0 {
		if f := guard("stale reader check", func() {
			tx := used.NewTransaction()
			tx.ProcessURI("/n", "POST", "HTTP/1.1")
			tx.AddRequestHeader("Content-Type", "application/x-www-form-urlencoded")
			tx.ProcessRequestHeaders()
			_, _, _ = tx.WriteRequestBody([]byte("fresh=NEW-TRANSACTION-BODY-THAT-SPILLS-TO-DISK"))
			tx.AddResponseHeader("Content-Type", "text/plain")
			tx.ProcessResponseHeaders(200, "HTTP/1.1")
			_, _, _ = tx.WriteResponseBody([]byte("NEW-RESPONSE"))
			for i, r := range readers {
				buf := make([]byte, 64)
				if n, _ := r.Read(buf); n != 0 {
					structural = failf("body reader #%d of a closed transaction returned %q: bytes of the NEXT transaction served by the recycled object", i, buf[:n])
				}
			}
			tx.ProcessLogging()
			_ = tx.Close()
		}); f != nil {
			res.Fail = f
			return res
		}
		if structural != nil {
			res.Fail = structural
			return res
		}
	}
	// behavioural: same probe on the used WAF and on the fresh WAF
	// (readers after the recycled object buffered a new body are re-checked below)
	ou, f := runProbe(used, &c.Probe)
	if f != nil {
		res.Fail = f
		return res
	}
	of, f := runProbe(fresh, &c.Probe)
	if f != nil {
		res.Fail = f
		return res
	}
	if ou != of {
		res.Fail = failf("probe outcome on the WAF that served %d earlier transactions differs from a fresh WAF:\n--- fresh\n%s--- used\n%s\nconfig:\n%s\npredecessors: %s\nprobe: %s", len(c.Preds), of, ou, conf, describePreds(c.Preds), c.Probe.URI())
		return res
	}
	for i, r := range readers {
		buf := make([]byte, 64)
		if n, _ := r.Read(buf); n != 0 {
			res.Fail = failf("body reader #%d of a closed transaction returned %d bytes after the recycled object buffered a new body: %q", i, n, buf[:n])
			return res
		}
	}
	// labels
	if reused {
		res.Labels = append(res.Labels, "pool-reuse-observed")
	}
	residual := false
	for _, p := range c.Preds {
		if p.StopAfter >= 0 {
			res.Labels = append(res.Labels, "pred-truncated")
			residual = true
		}
		if p.SkipLogging {
			res.Labels = append(res.Labels, "pred-no-logging")
		}
		if p.DoubleClose {
			res.Labels = append(res.Labels, "pred-double-close")
		}
		if len(p.Req.Body()) > 16 {
			res.Labels = append(res.Labels, "pred-body-spilled")
			residual = true
		}
		for _, it := range c.RS.Items {
			if it.Rule == nil || it.Rule.ID < 720 || len(it.Rule.Targets) == 0 {
				continue
			}
			for _, kv := range p.Req.Query {
				if kv.K == it.Rule.Targets[0].Key && kv.V == "1" {
					res.Labels = append(res.Labels, "residual:"+strings.Trim(strings.TrimPrefix(it.Rule.Acts[0], "tag:"), "'"))
					residual = true
				}
			}
		}
	}
	if len(readers) > 0 {
		res.Labels = append(res.Labels, "readers-checked")
	}
	res.NonTrivial = reused && residual
	return res
}

func describePreds(ps []Pred) string {
	var parts []string
	for _, p := range ps {
		parts = append(parts, fmt.Sprintf("{%s body=%q ct=%q stop=%d nolog=%v dbl=%v resp=%q/%q}", p.Req.URI(), p.Req.Body(), p.Req.ContentType, p.StopAfter, p.SkipLogging, p.DoubleClose, p.Req.RespHeaders, p.Req.RespBody))
	}
	return strings.Join(parts, " ")
}

func TestC05(t *testing.T) {
	runProp(t, "C05", genC05, checkC05)
}

func init() {
	registerReplay("C05", func(c *C05Case) *Failure { return checkC05(c).Fail })
}
