// C07 — The library never panics, whatever configuration text or traffic it is given.
package verifharness

import (
	"bytes"
	"fmt"
	"io"
	"net/http"
	"net/http/httptest"
	"net/url"
	"os"
	"path/filepath"
	"strings"
	"sync"
	"testing"
	"time"

	"github.com/corazawaf/coraza/v3"
	txhttp "github.com/corazawaf/coraza/v3/http"
	"github.com/corazawaf/coraza/v3/internal/corazawaf"
	"github.com/corazawaf/coraza/v3/internal/memoize"
	"github.com/corazawaf/coraza/v3/types/variables"
	"pgregory.net/rapid"
)

type C07Case struct {
	Lines   []string `json:"lines"`
	Req     Req      `json:"request"`
	Script  []Call   `json:"script"`
	RawReq  []byte   `json:"raw_request,omitempty"` // fed to ParseRequestReader instead of the script when set
	Traffic bool     `json:"traffic"`
	// HostileTraffic: request values were built from the decoders' escape alphabets and the configuration
	// carries rules that run transformation chains over everything the peer controls
	HostileTraffic bool `json:"hostile_traffic,omitempty"`
	Limits         bool `json:"limits,omitempty"` // small body limits and rules that move them
	// Refused: rules the compiler refuses while SecIgnoreRuleCompilationErrors is On, each followed by a directive
	// that names the refused rule's id again
	Refused bool `json:"refused,omitempty"`
	// Middleware: after the scripts the same request is also served through the library's net/http middleware
	// (a handler that answers with the case's response), twice
	Middleware bool `json:"middleware,omitempty"`
}

var c07Once sync.Once
var c07DataDir string                       // real directory (files are created there)
const c07Data = tmpPlaceholder + "/c07data" // how generated text refers to it

func c07Setup() {
	c07Once.Do(func() {
		loadVocab()
		c07DataDir = filepath.Join(privateTmp, "c07data")
		_ = os.MkdirAll(c07DataDir, 0o755)
		_ = os.WriteFile(filepath.Join(c07DataDir, "words.data"), []byte("# list\nselect\nunion\n\nabc\n"), 0o644)
		_ = os.WriteFile(filepath.Join(c07DataDir, "ips.data"), []byte("10.0.0.0/8\n192.168.1.1\nbogus\n"), 0o644)
		_ = os.WriteFile(filepath.Join(c07DataDir, "schema.json"), []byte(`{"type":"object","properties":{"a":{"type":"string"}}}`), 0o644)
		_ = os.MkdirAll(filepath.Join(c07DataDir, "audit"), 0o755)
		_ = os.MkdirAll(filepath.Join(c07DataDir, "upload"), 0o755)
	})
}

var c07Keys = []string{"a", "A", "a.b", "x-y", "0", "user-agent", "/a/", "/^a.*/", "/a\\/b/", "é", "json.a.0", "'/a/'", "content-type", "/^[a-c]+$/", "*", "/(/", "/[/", "//", "'a b'", "", "a|b", "//@*", "/*"}
var c07Hostile = []string{"", " ", "\"", "'", "\\", "%{", "%{}", "%{tx.}", "%{.a}", "%{tx.a", "|", ":", ",", "=", "!", "&", "@", "`", "\x00", "\xff", "-1", "0", "99999999999999999999", "1-", "-", "a b", "A|42|C", "%{unknown.x}"}

// pickBias draws from a pool ordered valid-first with a strong bias towards the early (valid)
// entries, so most lines compile while every hostile entry still occurs.
func pickBias(t *rapid.T, pool []string, label string) string {
	i := rapid.IntRange(0, len(pool)-1).Draw(t, label)
	for k := 0; k < 2; k++ {
		if j := rapid.IntRange(0, len(pool)-1).Draw(t, label+"b"); j < i {
			i = j
		}
	}
	return pool[i]
}

func c07Macro(t *rapid.T) string {
	v := rapid.SampledFrom(vocabData.variables).Draw(t, "macrovar")
	switch rapid.IntRange(0, 4).Draw(t, "macroform") {
	case 0:
		return "%{" + v + "}"
	case 1:
		return "%{" + strings.ToLower(v) + "." + rapid.SampledFrom([]string{"a", "0", "A-b", "x_y", "id", "msg"}).Draw(t, "macrokey") + "}"
	case 2:
		return "pre-%{" + v + ".a}-post"
	case 3:
		return "%{tx." + rapid.SampledFrom([]string{"a", "0", "9", "10", "score"}).Draw(t, "txkey") + "}"
	default:
		return "%{" + v + "." + "}"
	}
}

func c07Target(t *rapid.T) string {
	v := rapid.SampledFrom(vocabData.variables).Draw(t, "var")
	s := ""
	switch rapid.IntRange(0, 9).Draw(t, "prefix") {
	case 0:
		s = "&"
	case 1:
		s = "!"
	}
	s += v
	selectable := false
	if pv, err := variables.Parse(v); err == nil {
		selectable = pv.CanBeSelected()
	}
	if (selectable && rapid.IntRange(0, 1).Draw(t, "haskey") == 0) || (!selectable && rapid.IntRange(0, 19).Draw(t, "badkey") == 0) {
		s += ":" + pickBias(t, c07Keys, "key")
	}
	return s
}

func c07Targets(t *rapid.T) string {
	n := rapid.IntRange(1, 3).Draw(t, "ntargets")
	var parts []string
	for i := 0; i < n; i++ {
		parts = append(parts, c07Target(t))
	}
	return strings.Join(parts, "|")
}

func c07OpArg(t *rapid.T, op string) string {
	if rapid.IntRange(0, 39).Draw(t, "hostilearg") == 0 {
		return rapid.SampledFrom(c07Hostile).Draw(t, "hostile")
	}
	if rapid.IntRange(0, 5).Draw(t, "macroarg") == 0 {
		return c07Macro(t)
	}
	switch op {
	case "rx":
		return rapid.SampledFrom([]string{"a", "^a.*b$", "(a)(b)", "(", "[a", "(?P<n>x)", "a{1000}", "(a*)*b", "\\xff", "\\x{1F600}", "(?i)sel", "\\", "a|", "\\d+", "(?m)^x", ".{8}"}).Draw(t, "rx")
	case "pm":
		return pickBias(t, []string{"a b", "select union", "A|42|C", "abc", "a  b", " a"}, "pm")
	case "pmFromFile", "pmf":
		return pickBias(t, []string{c07Data + "/" + "words.data", "words.data", "missing.data", c07Data + "/" + "words.data" + " " + c07Data + "/" + "ips.data"}, "file")
	case "ipMatchFromFile", "ipMatchF":
		return pickBias(t, []string{c07Data + "/" + "ips.data", "missing.data"}, "file")
	case "pmFromDataset", "ipMatchFromDataset":
		return pickBias(t, []string{"ds1", "ds2", "missing"}, "ds")
	case "ipMatch":
		return pickBias(t, []string{"10.0.0.0/8", "10.0.0.1,::1", "bogus", "1.2.3.4/99", "::1/200", ",", "10.0.0.1/"}, "ip")
	case "validateByteRange":
		return pickBias(t, []string{"1-255", "10, 13, 32-126", "300", "5-1", "a-b", "1-", "-5", "0", "255-255"}, "vbr")
	case "validateNid":
		return rapid.SampledFrom([]string{"cl .{8}", "cl \\d", "us \\d{3}-\\d{2}-\\d{4}", "cl", "xx abc", "us (", "cl ........", "us .*"}).Draw(t, "nid")
	case "validateSchema":
		return pickBias(t, []string{c07Data + "/" + "schema.json", "missing.json"}, "schema")
	case "restpath":
		return rapid.SampledFrom([]string{"/a/{b}/c", "{", "/{a}/{a}", "/{a", "/a/{b}{c}", "/}"}).Draw(t, "restpath")
	case "inspectFile":
		return c07Data + "/" + "no-such-program"
	case "rbl":
		return "rbl.invalid."
	case "eq", "ge", "gt", "le", "lt":
		return pickBias(t, []string{"0", "5", "-1", "abc", "1e3", " 7"}, "num")
	case "detectSQLi", "detectXSS", "unconditionalMatch", "noMatch", "validateUrlEncoding", "validateUtf8Encoding", "geoLookup":
		return ""
	}
	return pickBias(t, []string{"a", "abc", "select", "x y", "/a", "1"}, "strarg")
}

func c07Operator(t *rapid.T) (string, string) {
	op := rapid.SampledFrom(vocabData.operators).Draw(t, "op")
	s := ""
	if rapid.IntRange(0, 5).Draw(t, "neg") == 0 {
		s = "!"
	}
	switch rapid.IntRange(0, 29).Draw(t, "opform") {
	case 0:
		return op, s + c07OpArg(t, "rx") // implicit @rx
	case 1:
		return op, s + "@" + op // no argument
	}
	arg := c07OpArg(t, op)
	arg = strings.ReplaceAll(arg, "\"", "\\\"")
	return op, s + "@" + op + " " + arg
}

func c07Ctl(t *rapid.T) string {
	opts := []string{"auditEngine", "auditLogParts", "debugLogLevel", "forceRequestBodyVariable", "requestBodyAccess", "requestBodyLimit", "requestBodyProcessor",
		"responseBodyAccess", "responseBodyLimit", "responseBodyProcessor", "forceResponseBodyVariable", "ruleEngine", "ruleRemoveById", "ruleRemoveByMsg", "ruleRemoveByTag",
		"ruleRemoveTargetById", "ruleRemoveTargetByMsg", "ruleRemoveTargetByTag", "hashEngine", "hashEnforcement", "bogusOption"}
	o := rapid.SampledFrom(opts).Draw(t, "ctlopt")
	var vals []string
	switch o {
	case "auditEngine":
		vals = []string{"On", "Off", "RelevantOnly", "bogus", ""}
	case "auditLogParts":
		vals = []string{"+E", "-E", "ABCZ", "+X", "-A", "bogus", "", "+", "ABIJDEFHZ", "+ABCDEFGHIJKZ"}
	case "debugLogLevel":
		vals = []string{"0", "3", "9", "abc", "-1", "300"}
	case "requestBodyLimit", "responseBodyLimit":
		vals = []string{"10", "0", "-1", "abc", "1", "99999999999"}
	case "requestBodyProcessor", "responseBodyProcessor":
		vals = []string{"JSON", "XML", "URLENCODED", "MULTIPART", "RAW", "bogus", "json", ""}
	case "ruleEngine":
		vals = []string{"On", "Off", "DetectionOnly", "bogus"}
	case "ruleRemoveById":
		vals = []string{"1", "2", "1-5", "5-1", "abc", "", "1-", "-", "1-2-3", "99999999999999999999"}
	case "ruleRemoveByMsg", "ruleRemoveByTag":
		vals = []string{"m1", "t1", "", "no such"}
	case "ruleRemoveTargetById":
		vals = []string{"1;ARGS:a", "1;ARGS:/a/", "1-3;ARGS", "1;bogus:x", "1;ARGS:/(/", "1", "1;", ";ARGS", "abc;ARGS:a", "1;ARGS://", "2;REQUEST_HEADERS:User-Agent", "1;ARGS_NAMES", "1;TX:/^a/", "1;XML:/*"}
	case "ruleRemoveTargetByMsg", "ruleRemoveTargetByTag":
		vals = []string{"m1;ARGS:a", "t1;ARGS:/a/", "t1;ARGS", "t1", ";", "t1;bogus"}
	default:
		vals = []string{"On", "Off", "bogus", ""}
	}
	v := pickBias(t, vals, "ctlval")
	if rapid.IntRange(0, 9).Draw(t, "ctlnoeq") == 0 {
		return "ctl:" + o
	}
	return "ctl:" + o + "=" + v
}

func c07Action(t *rapid.T, name string) string {
	ln := strings.ToLower(name)
	hostile := rapid.IntRange(0, 79).Draw(t, "hostileact") == 0
	if hostile {
		return name + ":" + rapid.SampledFrom(c07Hostile).Draw(t, "hostileval")
	}
	switch ln {
	case "setvar":
		forms := []string{"tx.a=1", "tx.a=+1", "tx.a=-1", "!tx.a", "tx.a", "TX.A=+%{tx.b}", "'tx.a=b c'", "tx.score=+%{tx.w}", "tx.%{rule.id}-x=%{matched_var}", "!tx.%{tx.a}", "tx.a=%{tx.a}%{tx.a}", "tx.a.b=1", "tx.a=+x", "tx.a=+", "tx.a=-", "tx.a=", "tx.", "ip.a=1", "a=1", "tx=1", "session.a=1"}
		v := pickBias(t, forms, "setvar")
		if rapid.IntRange(0, 3).Draw(t, "setvarmacro") == 0 {
			v = "tx.m=" + c07Macro(t)
		}
		if rapid.IntRange(0, 7).Draw(t, "setvarkeymacro") == 0 {
			v = "tx." + c07Macro(t) + "=1"
		}
		return "setvar:" + v
	case "setenv":
		return "setenv:" + rapid.SampledFrom([]string{"VERIF_A=1", "VERIF_A", "VERIF_B=%{tx.a}", "VERIF_=", "VERIF_C=" + "x"}).Draw(t, "setenv")
	case "ctl":
		return c07Ctl(t)
	case "id":
		return "" // handled by the caller
	case "phase":
		return "phase:" + pickBias(t, []string{"1", "2", "3", "4", "5", "request", "response", "logging", "0", "6", "x"}, "phase")
	case "msg", "logdata":
		return name + ":" + rapid.SampledFrom([]string{"'m1'", "m1", "'a, b: c'", "'%{matched_var}'", "'it\\'s'", "'" + "%{tx.0}" + "'", "''"}).Draw(t, "msg")
	case "tag":
		return "tag:" + pickBias(t, []string{"'t1'", "t1", "'a/b'", "''"}, "tag")
	case "severity":
		return "severity:" + pickBias(t, []string{"0", "2", "7", "8", "CRITICAL", "'notice'", "bogus", "-1"}, "sev")
	case "t":
		if rapid.IntRange(0, 9).Draw(t, "tbogus") == 0 {
			return "t:" + pickBias(t, []string{"none", "bogus", "", "NONE"}, "tb")
		}
		return "t:" + rapid.SampledFrom(vocabData.transformations).Draw(t, "tname")
	case "status":
		return "status:" + pickBias(t, []string{"403", "302", "0", "abc", "999", "-1"}, "status")
	case "redirect":
		return "redirect:" + rapid.SampledFrom([]string{"http://x/", "%{tx.a}", "''"}).Draw(t, "redirect")
	case "skip":
		return "skip:" + pickBias(t, []string{"1", "2", "0", "-1", "abc", "99"}, "skip")
	case "skipafter":
		return "skipAfter:" + rapid.SampledFrom([]string{"M1", "ABSENT", "'M1'", "%{tx.a}"}).Draw(t, "skipafter")
	case "allow":
		return pickBias(t, []string{"allow", "allow:phase", "allow:request", "allow:bogus"}, "allow")
	case "exec":
		return "exec:" + c07Data + "/" + "no-such-program"
	case "expirevar":
		return "expirevar:" + pickBias(t, []string{"tx.a=10", "tx.a", "ip.x=abc"}, "expirevar")
	case "initcol":
		return "initcol:" + rapid.SampledFrom([]string{"ip=%{remote_addr}", "ip", "global=global", "bogus=x"}).Draw(t, "initcol")
	case "rev", "ver":
		return name + ":" + pickBias(t, []string{"'1.2'", "1", "''"}, "rev")
	case "maturity", "accuracy":
		return name + ":" + pickBias(t, []string{"1", "9", "10", "abc", "0"}, "maturity")
	case "chain":
		return "" // chains are built by the caller
	}
	// flag-like actions: log nolog auditlog noauditlog capture multiMatch pass deny drop block ...
	if rapid.IntRange(0, 79).Draw(t, "flagarg") == 0 {
		return name + ":unexpected"
	}
	return name
}

func c07ActionList(t *rapid.T, id int, withID bool, chain bool) string {
	var acts []string
	if withID {
		switch rapid.IntRange(0, 29).Draw(t, "idform") {
		case 0:
			acts = append(acts, rapid.SampledFrom([]string{"id:0", "id:-1", "id:abc", "id:", "id:'5'"}).Draw(t, "badid"))
		case 1: // no id at all
		default:
			acts = append(acts, fmt.Sprintf("id:%d", id))
		}
	}
	n := rapid.IntRange(0, 5).Draw(t, "nacts")
	for i := 0; i < n; i++ {
		a := c07Action(t, rapid.SampledFrom(vocabData.actions).Draw(t, "action"))
		if a != "" {
			if rapid.IntRange(0, 9).Draw(t, "actcase") == 0 {
				a = strings.ToUpper(a[:1]) + a[1:]
			}
			acts = append(acts, a)
		}
	}
	if chain {
		acts = append(acts, "chain")
	}
	sep := rapid.SampledFrom([]string{",", ",", ", ", " ,"}).Draw(t, "sep")
	return strings.Join(acts, sep)
}

var c07DirArgs = map[string][]string{
	"secruleengine": {"On", "Off", "DetectionOnly", "bogus"}, "secrequestbodyaccess": {"On", "Off", "x"}, "secresponsebodyaccess": {"On", "Off"},
	"secrequestbodylimit": {"1", "10", "1000", "0", "-1", "abc", "99999999999999"}, "secrequestbodyinmemorylimit": {"1", "10", "1000", "0", "-5"},
	"secresponsebodylimit": {"1", "10", "1000", "0"}, "secrequestbodylimitaction": {"Reject", "ProcessPartial", "x"}, "secresponsebodylimitaction": {"Reject", "ProcessPartial"},
	"secrequestbodyjsondepthlimit": {"1", "2", "0", "1000"}, "secargumentslimit": {"1", "2", "1000", "0", "abc"}, "secrequestbodynofileslimit": {"10", "abc"},
	"secauditengine": {"On", "Off", "RelevantOnly", "x"}, "secauditlogparts": {"ABCDEFGHIJKZ", "ABZ", "AZ", "Z", "ABX", "", "abz", "AKZ", "ABIJDEFHZ"},
	"secauditlogformat": {"JSON", "Native", "JsonLegacy", "OCSF", "bogus"}, "secauditlogtype": {"Serial", "Concurrent", "bogus"},
	"secauditlogrelevantstatus": {"^(?:5|4(?!04))", "^[45]", "(", "403", ".*"}, "secauditlogdirmode": {"0750", "default", "999", "abc"}, "secauditlogfilemode": {"0640", "default", "x"},
	"secdebugloglevel": {"0", "3", "9", "10", "-1", "abc"}, "secuploadkeepfiles": {"On", "Off", "RelevantOnly", "x"}, "secuploadfilemode": {"0600", "999", "abc"},
	"secuploadfilelimit": {"1", "0", "abc"}, "secrxprefilter": {"On", "Off", "x"}, "secignorerulecompilationerrors": {"On", "Off"},
	"secresponsebodymimetype": {"text/plain", "text/plain text/html", ""}, "secresponsebodymimetypesclear": {""}, "seccomponentsignature": {"\"comp/1.0 (x)\"", "x"},
	"secwebappid": {"app", ""}, "secserversignature": {"srv"}, "secsensorid": {"s1"}, "secmarker": {"M1", "'M1'", "", "ABSENT"},
	"secruleremovebyid": {"1", "1 2", "1-3", "3-1", "abc", "", "1-", "1 2-4 7"}, "secruleremovebytag": {"t1", "", "'t1'"}, "secruleremovebymsg": {"m1", "", "no such"},
	"secruleupdatetargetbyid":  {"1 ARGS:a", "1 !ARGS:a", "1 2 \"ARGS\"", "1-3 !ARGS:/a/", "1", "abc ARGS", "1 bogus", "1 \"!REQUEST_HEADERS:x|ARGS_NAMES\"", "99 ARGS"},
	"secruleupdatetargetbytag": {"t1 ARGS:a", "t1 !ARGS", "t1", "t1 bogus"}, "secruleupdatetargetbymsg": {"m1 ARGS:a", "m1"},
	"secruleupdateactionbyid": {"1 \"deny,status:403\"", "1 \"pass\"", "1-3 \"nolog\"", "1 2 \"t:none\"", "1", "abc \"pass\"", "1 \"id:9\"", "1 \"phase:3\"", "1 \"bogus\"", "99 \"pass\"", "1 \"setvar:tx.a\""},
	"secargumentseparator":    {"&", ";", "ab", ""}, "seccookieformat": {"0", "1", "x"}, "secunicodemap": {"20127", "x"},
	"secremoterules": {"key https://example.invalid/rules"}, "secremoterulesfailaction": {"Abort", "Warn", "x"},
}

func c07Directive(t *rapid.T) string {
	name := rapid.SampledFrom(vocabData.directives).Draw(t, "directive")
	switch name {
	case "secrule", "secaction", "secdefaultaction", "secdataset":
		return "" // generated by dedicated branches
	case "secauditlog":
		// a good file, a device that refuses every write, a path below a regular file
		return "SecAuditLog " + rapid.SampledFrom([]string{c07Data + "/audit/audit.log", c07Data + "/audit/audit.log", "/dev/full", c07Data + "/words.data/audit.log"}).Draw(t, "auditlogpath")
	case "secauditlogstoragedir":
		return "SecAuditLogStorageDir " + rapid.SampledFrom([]string{c07Data + "/audit", c07Data + "/audit", c07Data + "/words.data/store", "/dev/null/store"}).Draw(t, "auditdirpath")
	case "secdebuglog":
		return "SecDebugLog " + c07Data + "/" + "debug.log"
	case "secuploaddir", "sectmpdir", "secdatadir":
		return name + " " + c07Data + "/" + "upload"
	}
	pool, ok := c07DirArgs[name]
	if !ok {
		pool = []string{"On", "Off", "1", "abc", ""}
	}
	arg := pickBias(t, pool, "dirarg")
	if rapid.IntRange(0, 49).Draw(t, "hostiledir") == 0 {
		arg = rapid.SampledFrom(c07Hostile).Draw(t, "hostiledirarg")
	}
	spelled := name
	if rapid.Bool().Draw(t, "dircase") {
		spelled = "Sec" + strings.ToUpper(name[3:4]) + name[4:]
	}
	if arg == "" {
		return spelled
	}
	return spelled + " " + arg
}

func mutateBytes(t *rapid.T, s string) string {
	b := []byte(s)
	n := rapid.IntRange(1, 3).Draw(t, "nmut")
	for i := 0; i < n; i++ {
		if len(b) == 0 {
			b = append(b, rapid.Byte().Draw(t, "ins0"))
			continue
		}
		lo := bytes.IndexByte(b, ' ') + 1 // keep the directive name intact most of the time
		if lo >= len(b) || rapid.IntRange(0, 9).Draw(t, "anypos") == 0 {
			lo = 0
		}
		pos := lo + int(rapid.Uint32Range(0, uint32(len(b)-1-lo)).Draw(t, "pos"))
		switch rapid.IntRange(0, 3).Draw(t, "mutkind") {
		case 0:
			b = append(b[:pos], b[pos+1:]...)
		case 1:
			b = append(b[:pos+1], b[pos:]...)
		case 2:
			b[pos] = rapid.SampledFrom([]byte("\"'\\|:,=!&@%{}/ `\x00\xff\n")).Draw(t, "newbyte")
		case 3:
			ins := rapid.SampledFrom([]string{"\"", "'", "\\", "|", ":", ",", "%{", "}", " ", "`", "\\\n"}).Draw(t, "ins")
			b = append(b[:pos], append([]byte(ins), b[pos:]...)...)
		}
	}
	return string(b)
}

var c07Bodies = []struct{ ct, body string }{
	{"application/x-www-form-urlencoded", "a=1&b=2&a=3"}, {"application/x-www-form-urlencoded", "%zz=%&&=&a"},
	{"application/json", `{"a":1,"b":[1,{"c":"x"}],"a":2}`}, {"application/json", `{"a":`}, {"application/json", `[[[[[[[[1]]]]]]]]`}, {"application/json", "\xff"},
	{"text/xml", `<a x="1"><b>t</b><!-- c --></a>`}, {"text/xml", `<a><b></a>`}, {"application/xml", "<"},
	{"multipart/form-data; boundary=bb", "--bb\r\nContent-Disposition: form-data; name=\"a\"\r\n\r\nv\r\n--bb\r\nContent-Disposition: form-data; name=\"f\"; filename=\"x.txt\"\r\nContent-Type: text/plain\r\n\r\nfile\r\n--bb--\r\n"},
	{"multipart/form-data; boundary=bb", "--bb\r\nContent-Disposition: form-data; name=\"a\"\r\n\r\nv"}, {"multipart/form-data", "x"}, {"multipart/form-data; boundary=", "--\r\n"},
	{"text/plain", "plain"}, {"", "no content type"}, {"application/x-www-form-urlencoded", ""},
}

func genC07(t *rapid.T) *C07Case {
	c07Setup()
	c := &C07Case{Traffic: true}
	n := rapid.IntRange(1, 7).Draw(t, "nlines")
	id := 0
	lines := []string{}
	if rapid.IntRange(0, 2).Draw(t, "dataset") == 0 {
		lines = append(lines, "SecDataset ds1 `\nselect\nunion\n`", "SecDataset ds2 `\n10.0.0.0/8\n`")
	}
	for i := 0; i < n; i++ {
		var l string
		switch rapid.IntRange(0, 9).Draw(t, "linekind") {
		case 0, 1, 2:
			l = c07Directive(t)
		case 3:
			id++
			l = fmt.Sprintf("SecAction \"%s\"", c07ActionList(t, id, true, false))
		case 4:
			ph := rapid.IntRange(1, 5).Draw(t, "daphase")
			l = fmt.Sprintf("SecDefaultAction \"phase:%d,%s%s\"", ph, rapid.SampledFrom([]string{"pass", "deny", "deny,status:403", "log,pass", "nolog,auditlog,block", "drop"}).Draw(t, "dadisr"),
				rapid.SampledFrom([]string{"", ",t:lowercase", ",setvar:tx.d=1", ",id:5", ",msg:'x'"}).Draw(t, "daextra"))
		default:
			id++
			links := 0
			if rapid.IntRange(0, 5).Draw(t, "chain") == 0 {
				links = rapid.IntRange(1, 2).Draw(t, "links")
			}
			opname, op := c07Operator(t)
			_ = opname
			l = fmt.Sprintf("SecRule %s \"%s\" \"%s\"", c07Targets(t), op, c07ActionList(t, id, true, links > 0))
			for j := 0; j < links; j++ {
				_, op2 := c07Operator(t)
				l += fmt.Sprintf("\nSecRule %s \"%s\" \"%s\"", c07Targets(t), op2, c07ActionList(t, 0, false, j+1 < links))
			}
		}
		if l == "" {
			continue
		}
		if rapid.IntRange(0, 15).Draw(t, "mutate") == 0 {
			l = mutateBytes(t, l)
		}
		lines = append(lines, l)
	}
	limits := rapid.IntRange(0, 3).Draw(t, "limits") == 0
	if limits {
		// body-limit dynamics: small limits, both limit actions, and rules that move the limits (or switch body
		// access / the body processor) in any phase, i.e. possibly below what has been buffered by then
		la := []string{"Reject", "ProcessPartial"}
		lines = append([]string{"SecRuleEngine On", "SecRequestBodyAccess On", "SecResponseBodyAccess On", "SecResponseBodyMimeType text/plain text/html application/json",
			fmt.Sprintf("SecRequestBodyLimit %d", rapid.IntRange(4, 48).Draw(t, "rql")),
			fmt.Sprintf("SecRequestBodyInMemoryLimit %d", rapid.IntRange(1, 48).Draw(t, "rqm")),
			"SecRequestBodyLimitAction " + rapid.SampledFrom(la).Draw(t, "rqa"),
			fmt.Sprintf("SecResponseBodyLimit %d", rapid.IntRange(4, 48).Draw(t, "rsl")),
			"SecResponseBodyLimitAction " + rapid.SampledFrom(la).Draw(t, "rsa")}, lines...)
		for i, k := 0, rapid.IntRange(1, 3).Draw(t, "nlimctl"); i < k; i++ {
			ctl := rapid.SampledFrom([]string{"requestBodyLimit=%d", "responseBodyLimit=%d", "requestBodyLimit=%d", "requestBodyAccess=Off", "responseBodyAccess=Off",
				"requestBodyProcessor=JSON", "requestBodyProcessor=XML", "responseBodyProcessor=JSON", "forceRequestBodyVariable=On", "requestBodyAccess=On",
				// per-transaction rule and logging state, changed at any point of the (possibly anomalous) call sequence
				"requestBodyLimit=1", "requestBodyLimit=3", "responseBodyLimit=1", "responseBodyLimit=5",
				"ruleRemoveTargetById=9400;ARGS:x", "ruleRemoveTargetById=9400;ARGS:/^a/", "ruleRemoveTargetByTag=dyn;ARGS_GET", "ruleRemoveTargetByMsg=dynmsg;REQUEST_HEADERS:x-a",
				"ruleRemoveById=9400", "ruleRemoveById=9000-9600", "ruleRemoveByTag=dyn", "ruleRemoveByMsg=dynmsg", "ruleEngine=DetectionOnly", "ruleEngine=Off", "ruleEngine=On",
				"auditEngine=On", "auditLogParts=+E", "auditLogParts=-B", "debugLogLevel=9"}).Draw(t, "limctl")
			if strings.Contains(ctl, "%d") {
				ctl = fmt.Sprintf(ctl, rapid.IntRange(1, 60).Draw(t, "limval"))
			}
			lines = append(lines, fmt.Sprintf("SecAction \"id:%d,phase:%d,pass,nolog,ctl:%s\"", 9500+i, rapid.IntRange(1, 5).Draw(t, "limphase"), ctl))
		}
		lines = append(lines, "SecRule ARGS|REQUEST_HEADERS \"@rx .\" \"id:9400,phase:2,pass,nolog,tag:'dyn',msg:'dynmsg'\"")
		if rapid.Bool().Draw(t, "auditfacet") {
			// every transaction is audited; the log target or the storage directory may be unusable
			lines = append(lines, "SecAuditEngine On",
				// any order of the parts the directive accepts, not only the canonical one
				"SecAuditLogParts "+rapid.SampledFrom([]string{"ABCFHKZ", "ABKHZ", "AKBHZ", "ABHZ", "ABKZ", "AHKBZ", "ABCDEFGHIJKZ", "AZ"}).Draw(t, "facetparts"),
				"SecAuditLogType "+rapid.SampledFrom([]string{"Concurrent", "Concurrent", "Serial"}).Draw(t, "audittype"),
				"SecAuditLogFormat "+rapid.SampledFrom([]string{"JSON", "Native"}).Draw(t, "auditformat"),
				"SecAuditLog "+rapid.SampledFrom([]string{c07Data + "/audit/audit.log", "/dev/full", c07Data + "/words.data/audit.log"}).Draw(t, "facetlog"),
				"SecAuditLogStorageDir "+rapid.SampledFrom([]string{c07Data + "/audit", c07Data + "/words.data/store", "/dev/null/store"}).Draw(t, "facetdir"),
				"SecAction \"id:9401,phase:1,pass,log,auditlog,msg:'audited'\"")
		}
		c.Limits = true
	}
	if rapid.IntRange(0, 5).Draw(t, "refused") == 0 {
		var extra []string
		for i, k := 0, rapid.IntRange(1, 3).Draw(t, "nrefused"); i < k; i++ {
			rid := 9700 + i
			switch rapid.IntRange(0, 5).Draw(t, "refusedkind") {
			case 0: // a disruptive action in a chain member: the whole pending chain is dropped
				extra = append(extra, fmt.Sprintf("SecRule ARGS \"@rx a\" \"id:%d,phase:2,pass,chain\"\nSecRule ARGS \"@rx b\" \"deny\"", rid))
			case 1:
				extra = append(extra, fmt.Sprintf("SecRule ARGS \"@rx a\" \"id:%d,phase:2,pass,chain\"\nSecRule ARGS \"@nosuchoperator b\" \"t:none\"", rid))
			case 2:
				extra = append(extra, fmt.Sprintf("SecRule ARGS \"@rx a\" \"id:%d,phase:2,pass,chain\"\nSecRule ARGS \"@rx b\" \"t:nosuchtransformation\"", rid))
			case 3:
				extra = append(extra, fmt.Sprintf("SecRule ARGS \"@rx (\" \"id:%d,phase:2,pass\"", rid))
			case 4:
				extra = append(extra, fmt.Sprintf("SecRule ARGS \"@rx a\" \"id:%d,phase:2,pass,nosuchaction\"", rid))
			default: // a chain left open by the end of the rules that follow
				extra = append(extra, fmt.Sprintf("SecRule ARGS \"@rx a\" \"id:%d,phase:2,pass,chain\"\nSecRule ARGS \"@rx b\" \"chain,deny\"", rid))
			}
			switch rapid.IntRange(0, 6).Draw(t, "refusedref") {
			case 0:
				extra = append(extra, fmt.Sprintf("SecRule ARGS \"@rx c\" \"id:%d,phase:2,pass\"", rid))
			case 1:
				extra = append(extra, fmt.Sprintf("SecRuleUpdateTargetById %d \"!ARGS:x\"", rid))
			case 2:
				extra = append(extra, fmt.Sprintf("SecRuleUpdateActionById %d \"pass,nolog\"", rid))
			case 3:
				extra = append(extra, fmt.Sprintf("SecRuleRemoveById %d", rid))
			case 4:
				extra = append(extra, fmt.Sprintf("SecRuleRemoveById %d-%d", rid-1, rid+1))
			case 5:
				extra = append(extra, fmt.Sprintf("SecAction \"id:%d,phase:1,pass,nolog,ctl:ruleRemoveById=%d,ctl:ruleRemoveTargetById=%d;ARGS:x\"", rid+50, rid, rid))
			default:
				extra = append(extra, fmt.Sprintf("SecAction \"id:%d,phase:2,pass,nolog\"", rid+50))
			}
		}
		if rapid.Bool().Draw(t, "refusedfirst") {
			lines = append(append([]string{"SecIgnoreRuleCompilationErrors On"}, extra...), lines...)
		} else {
			lines = append(append([]string{"SecIgnoreRuleCompilationErrors On"}, lines...), extra...)
		}
		c.Refused = true
	}
	c.Middleware = rapid.IntRange(0, 3).Draw(t, "middleware") == 0
	if c.Middleware && rapid.Bool().Draw(t, "mwrule") {
		// a rule that always matches, with every kind of disruptive outcome and status the middleware has to turn into a response
		lines = append(lines, fmt.Sprintf("SecRule REQUEST_URI \"@rx .\" \"id:9800,phase:%d,%s,status:%s\"", rapid.IntRange(1, 5).Draw(t, "mwphase"),
			rapid.SampledFrom([]string{"deny", "deny", "drop", "redirect:http://r.example/", "redirect:%{tx.nosuch}", "redirect:\\x00\\r\\nX: y", "block", "allow", "pass"}).Draw(t, "mwdisr"),
			rapid.SampledFrom([]string{"403", "99", "1000", "103", "0", "302", "204", "304", "999", "-1", "200"}).Draw(t, "mwstatus")))
	}
	c.Lines = lines
	for _, l := range lines {
		if strings.Contains(l, "@rbl") || strings.Contains(l, "@geoLookup") || strings.Contains(strings.ToLower(l), "secremoterules") {
			c.Traffic = false // network I/O by design: compiled but not driven
		}
	}
	// traffic
	c.Req = genC01Req(t)
	if rapid.Bool().Draw(t, "hostiletraffic") {
		// values made of every decoder's escape alphabet, complete and truncated, anywhere a peer can put bytes
		c.HostileTraffic = true
		for _, l := range []*[]KV{&c.Req.Query, &c.Req.Post, &c.Req.Headers, &c.Req.Cookies} {
			for i := range *l {
				if rapid.Bool().Draw(t, "hv") {
					(*l)[i].V = string(genC14Input(t))
				}
			}
		}
		if len(c.Req.Query) == 0 {
			c.Req.Query = append(c.Req.Query, KV{"q", string(genC14Input(t))})
		}
		loadVocab()
		nt := rapid.IntRange(1, 3).Draw(t, "ntrules")
		for i := 0; i < nt; i++ {
			tl := "t:none"
			for j, k := 0, rapid.IntRange(1, 3).Draw(t, "ntr"); j < k; j++ {
				tl += ",t:" + rapid.SampledFrom(vocabData.transformations).Draw(t, "tr")
			}
			if rapid.IntRange(0, 3).Draw(t, "mm") == 0 {
				tl += ",multiMatch"
			}
			c.Lines = append(c.Lines, fmt.Sprintf("SecRule ARGS|ARGS_NAMES|REQUEST_HEADERS|REQUEST_COOKIES|REQUEST_URI|REQUEST_BODY \"@rx .\" \"id:%d,phase:2,pass,nolog,%s\"", 9000+i, tl))
		}
	}
	if rapid.Bool().Draw(t, "rawbody") {
		b := rapid.SampledFrom(c07Bodies).Draw(t, "body")
		c.Req.Post = nil
		c.Req.ContentType = b.ct
		c.Req.RawBody = []byte(b.body)
		if rapid.IntRange(0, 3).Draw(t, "mutbody") == 0 {
			c.Req.RawBody = []byte(mutateBytes(t, b.body))
		}
	}
	if rapid.IntRange(0, 3).Draw(t, "respbody") == 0 {
		c.Req.RespHeaders = append(c.Req.RespHeaders, KV{"Content-Type", rapid.SampledFrom([]string{"text/plain", "text/html", "application/json"}).Draw(t, "rct")})
		c.Req.RespBody = []byte(rapid.SampledFrom([]string{"body", `{"a":1}`, "<a>x</a>", "\xff\x00"}).Draw(t, "rbody"))
	}
	script := canonicalScript(&c.Req)
	// bodies arrive in pieces, through the slice or the reader entry point
	var chunked []Call
	for _, call := range script {
		if (call.Op == "wreq" || call.Op == "wresp") && len(call.Data) > 1 && rapid.Bool().Draw(t, "split") {
			op := call.Op
			if rapid.IntRange(0, 3).Draw(t, "viareader") == 0 {
				op = "r" + op[1:]
			}
			cut := rapid.IntRange(1, len(call.Data)-1).Draw(t, "cut")
			chunked = append(chunked, Call{Op: call.Op, Data: call.Data[:cut]}, Call{Op: op, Data: call.Data[cut:]})
			continue
		}
		chunked = append(chunked, call)
	}
	script = chunked
	if c.Limits && rapid.IntRange(0, 2).Draw(t, "earlybody") == 0 {
		// body bytes that arrive before the headers phase has run (a connector that forwards what it has), and more through
		// a reader afterwards: a rule of that phase may lower the limit below what is already buffered
		var early []Call
		for _, call := range script {
			switch call.Op {
			case "p1":
				early = append(early, Call{Op: rapid.SampledFrom([]string{"wreq", "rreq"}).Draw(t, "earlyreqop"), Data: []byte("a=EARLY-REQUEST-BODY")}, Call{Op: "rdr"}, call,
					Call{Op: rapid.SampledFrom([]string{"rreq", "wreq"}).Draw(t, "latereqop"), Data: []byte(rapid.SampledFrom([]string{"", "&b=1", "&b=LATER-REQUEST-BODY"}).Draw(t, "latereq"))}, Call{Op: "rdr"})
			case "p3":
				early = append(early, Call{Op: rapid.SampledFrom([]string{"wresp", "rresp"}).Draw(t, "earlyrespop"), Data: []byte("EARLY-RESPONSE-BODY")}, call,
					Call{Op: rapid.SampledFrom([]string{"rresp", "wresp"}).Draw(t, "laterespop"), Data: []byte(rapid.SampledFrom([]string{"", "x", "LATER-RESPONSE-BODY"}).Draw(t, "lateresp"))})
			default:
				early = append(early, call)
			}
		}
		script = early
	}
	if rapid.IntRange(0, 2).Draw(t, "anomalous") == 0 || (c.Limits && rapid.Bool().Draw(t, "anomalous2")) {
		nm := rapid.IntRange(1, 4).Draw(t, "nmutscript")
		for i := 0; i < nm && len(script) > 1; i++ {
			last := len(script) - 1
			j := rapid.IntRange(0, last-1).Draw(t, "j")
			kinds := 5
			if c.Limits {
				kinds = 7 // the handle used after Close: twice as likely where rules change per-transaction state
			}
			smut := rapid.IntRange(0, kinds).Draw(t, "smut")
			if smut > 5 {
				smut = 5
			}
			switch smut {
			case 0:
				script = append(script[:j+1], append([]Call{script[j]}, script[j+1:]...)...)
			case 1:
				script = append(script[:j], script[j+1:]...)
			case 2:
				k := rapid.IntRange(0, last-1).Draw(t, "k")
				script[j], script[k] = script[k], script[j]
			case 3: // move one call somewhere else (a body write before its headers phase, a phase call early, ...)
				mv := script[j]
				rest := append(append([]Call(nil), script[:j]...), script[j+1:]...)
				k := rapid.IntRange(0, len(rest)).Draw(t, "to")
				script = append(append(append([]Call(nil), rest[:k]...), mv), rest[k:]...)
			case 4: // an extra body write or phase call anywhere
				extra := rapid.SampledFrom([]Call{{Op: "wreq", Data: []byte("x=EXTRA-REQUEST-BYTES")}, {Op: "wresp", Data: []byte("EXTRA-RESPONSE-BYTES")},
					{Op: "rreq", Data: []byte("y=1")}, {Op: "rresp", Data: []byte("zz")}, {Op: "rdr"}, {Op: "rdr"}, {Op: "rdrresp"}, {Op: "p1"}, {Op: "p2"}, {Op: "p3", Code: 200}, {Op: "p4"}, {Op: "p5"}}).Draw(t, "extra")
				script = append(append(append([]Call(nil), script[:j]...), extra), script[j:]...)
			case 5: // the handle is used after Close
				script = append(append(append([]Call(nil), script[:j+1]...), Call{Op: "close"}), script[j+1:]...)
			}
		}
		if len(script) > 18 {
			script = append(script[:17], Call{Op: "p5"})
		}
	}
	c.Script = script
	if rapid.IntRange(0, 7).Draw(t, "parsereader") == 0 {
		raws := []string{"GET /a?b=1 HTTP/1.1\r\nHost: x\r\n\r\n", "POST / HTTP/1.1\r\nContent-Type: application/x-www-form-urlencoded\r\n\r\na=1", "GET /\r\n", "", "\r\n", "GET / HTTP/1.1\r\nNoColon\r\n\r\n", "A B C D\r\n:\r\n\r\nx\r\ny"}
		c.RawReq = []byte(rapid.SampledFrom(raws).Draw(t, "rawreq"))
		if rapid.Bool().Draw(t, "mutraw") {
			c.RawReq = []byte(mutateBytes(t, string(c.RawReq)))
		}
	}
	return c
}

func vocabLabels(lines []string) []string {
	var out []string
	joined := strings.Join(lines, "\n")
	low := strings.ToLower(joined)
	for _, d := range vocabData.directives {
		if strings.Contains(low, d+" ") || strings.Contains(low, d+"\n") || strings.HasSuffix(low, d) {
			out = append(out, "dir:"+d)
		}
	}
	for _, a := range vocabData.actions {
		la := strings.ToLower(a)
		if strings.Contains(low, ","+la) || strings.Contains(low, "\""+la) || strings.Contains(low, " "+la) {
			out = append(out, "act:"+a)
		}
	}
	for _, o := range vocabData.operators {
		if strings.Contains(joined, "@"+o+" ") || strings.Contains(joined, "@"+o+"\"") {
			out = append(out, "op:"+o)
		}
	}
	for _, tr := range vocabData.transformations {
		if strings.Contains(joined, "t:"+tr) {
			out = append(out, "t:"+tr)
		}
	}
	for _, v := range vocabData.variables {
		if strings.Contains(joined, v) {
			out = append(out, "var:"+v)
		}
	}
	return out
}

func c07Run(c *C07Case) (accepted bool, evaluated int, fail *Failure) {
	// every case starts from an empty process-wide pattern cache, so a failure is a function of
	// the case alone (cross-WAF cache effects are C13's subject)
	memoize.Reset()
	conf := expandTmp(strings.Join(c.Lines, "\n"))
	var w coraza.WAF
	var err error
	if f := guard("NewWAF", func() {
		w, err = coraza.NewWAF(coraza.NewWAFConfig().WithDirectives(conf))
	}); f != nil {
		return false, 0, f
	}
	if err != nil {
		if w != nil {
			return false, 0, failf("NewWAF returned both a WAF and an error: %v", err)
		}
		return false, 0, nil
	}
	if w == nil {
		return false, 0, failf("NewWAF returned neither a WAF nor an error")
	}
	defer closeWAF(w)
	if !c.Traffic {
		return true, 0, nil
	}
	if c.RawReq != nil {
		f := guard("ParseRequestReader", func() {
			tx := w.NewTransaction()
			if ctx, ok := tx.(*corazawaf.Transaction); ok {
				_, _ = ctx.ParseRequestReader(bytes.NewReader(c.RawReq))
			}
			tx.ProcessLogging()
			evaluated = len(tx.MatchedRules())
			_ = tx.Close()
		})
		return true, evaluated, f
	}
	_, fired, _, f := execScript(w, &c.Req, c.Script)
	if f == nil {
		// the same calls again on the same WAF: whatever the first transaction left behind (a recycled object,
		// a writer in some state) must not make the next one panic or wait for ever
		_, _, _, f = execScript(w, &c.Req, c.Script)
	}
	if f == nil && c.Middleware {
		f = c07Middleware(w, &c.Req)
	}
	return true, len(fired), f
}

// c07Middleware serves the request through txhttp.WrapHandler. The *http.Request is assembled by hand (the parsing
// helpers of net/http refuse or panic on hostile text, which would be the harness' doing, not the library's).
func c07Middleware(w coraza.WAF, r *Req) *Failure {
	status := r.RespStatus
	if status < 200 || status > 599 {
		status = 200
	}
	h := txhttp.WrapHandler(w, http.HandlerFunc(func(rw http.ResponseWriter, hr *http.Request) {
		_, _ = io.Copy(io.Discard, hr.Body)
		for _, kv := range r.RespHeaders {
			rw.Header().Add(kv.K, kv.V)
		}
		rw.WriteHeader(status)
		if len(r.RespBody) > 0 {
			half := len(r.RespBody) / 2
			_, _ = rw.Write(r.RespBody[:half])
			if fl, ok := rw.(http.Flusher); ok {
				fl.Flush()
			}
			_, _ = rw.Write(r.RespBody[half:])
		}
	}))
	for i := 0; i < 2; i++ {
		if f := guard("http middleware", func() {
			body := r.Body()
			hr := &http.Request{Method: r.Method, URL: &url.URL{Path: r.Path, RawQuery: r.RawQuery()}, Proto: "HTTP/1.1", ProtoMajor: 1, ProtoMinor: 1,
				Header: http.Header{}, Body: io.NopCloser(bytes.NewReader(body)), ContentLength: int64(len(body)), Host: "h.example", RemoteAddr: "10.0.0.1:40000", RequestURI: r.URI()}
			for _, kv := range r.AllHeaders() {
				hr.Header.Add(kv.K, kv.V)
			}
			h.ServeHTTP(httptest.NewRecorder(), hr)
		}); f != nil {
			return f
		}
	}
	return nil
}

func checkC07(c *C07Case) Result {
	res := Result{}
	type outT struct {
		accepted  bool
		evaluated int
		fail      *Failure
	}
	done := make(chan outT, 1)
	go func() {
		a, e, f := c07Run(c)
		done <- outT{a, e, f}
	}()
	var o outT
	select {
	case o = <-done:
	case <-time.After(20 * time.Second):
		// generous per-case deadline exceeded (cases run in microseconds): wait much longer before calling it a hang
		select {
		case o = <-done:
			res.Labels = append(res.Labels, "slow-case")
		case <-time.After(120 * time.Second):
			res.Fail = &Failure{Msg: "the case did not return within 140 s (hang):\n" + strings.Join(c.Lines, "\n"), Site: "hang"}
			return res
		}
	}
	if o.fail != nil {
		o.fail.Msg += "\nconfig:\n" + strings.Join(c.Lines, "\n")
		if known("C07-site:" + o.fail.Site) {
			statExcluded("C07-site:" + o.fail.Site)
			res.Labels = append(res.Labels, "known-panic-site-hit")
			return res
		}
		res.Fail = o.fail
		return res
	}
	if o.accepted {
		res.Labels = append(res.Labels, "accepted")
		res.Labels = append(res.Labels, vocabLabels(c.Lines)...)
		if o.evaluated > 0 {
			res.Labels = append(res.Labels, "rules-fired")
		}
		if c.RawReq != nil {
			res.Labels = append(res.Labels, "parse-request-reader")
		}
		if c.Limits && c.Traffic && c.RawReq == nil {
			res.Labels = append(res.Labels, "body-limit-dynamics")
		}
		if c.HostileTraffic && c.Traffic && c.RawReq == nil {
			res.Labels = append(res.Labels, "hostile-values-through-transformation-chains")
		}
		if c.Refused {
			res.Labels = append(res.Labels, "refused-rules-then-references-to-their-ids")
		}
		if c.Middleware && c.Traffic && c.RawReq == nil {
			res.Labels = append(res.Labels, "through-the-http-middleware")
		}
		res.NonTrivial = c.Traffic && len(c.Lines) > 0
	} else {
		res.Labels = append(res.Labels, "rejected-with-error")
	}
	return res
}

func TestC07(t *testing.T) {
	runProp(t, "C07", genC07, checkC07)
}

func init() {
	registerReplay("C07", func(c *C07Case) *Failure { c07Setup(); return checkC07(c).Fail })
}
