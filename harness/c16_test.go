// C16 — Directive text means the same however it is written; nothing is silently altered.
package verifharness

import (
	"fmt"
	"os"
	"path/filepath"
	"reflect"
	"strconv"
	"strings"
	"testing"

	"github.com/corazawaf/coraza/v3/experimental/plugins/plugintypes"
	actionsmod "github.com/corazawaf/coraza/v3/internal/actions"
	"github.com/corazawaf/coraza/v3/internal/corazawaf"
	"github.com/corazawaf/coraza/v3/internal/seclang"
	"pgregory.net/rapid"
)

type DAction struct {
	Name  string `json:"name"`
	Value string `json:"value,omitempty"` // the stored value (text between the outer quotes, kept verbatim)
	Quote bool   `json:"quote,omitempty"` // render the value inside single quotes
}

type DRule struct {
	Targets []Target  `json:"targets"`
	OpName  string    `json:"op"`
	OpNeg   bool      `json:"opneg,omitempty"`
	OpArg   string    `json:"oparg"`
	ID      int       `json:"id,omitempty"`
	Phase   int       `json:"phase,omitempty"`
	Actions []DAction `json:"actions"`
	Chain   []*DRule  `json:"chain,omitempty"`
}

type C16Style struct {
	Seed      []byte `json:"seed"` // drives case / indentation / continuation / comment choices
	SplitFile bool   `json:"split_file,omitempty"`
	// TrailingContinuation: the text ends with a line-continuation backslash after its last directive
	TrailingContinuation bool `json:"trailing_continuation,omitempty"`
	// LongComment: a comment line of 70000 characters stands in front of one of the rules
	LongComment bool `json:"long_comment,omitempty"`
}

type C16Case struct {
	Rules    []*DRule   `json:"rules"`
	Styles   []C16Style `json:"styles"`
	NearMiss string     `json:"near_miss,omitempty"` // kind of delimiter edit applied to the first rule
	MissArg  int        `json:"near_miss_arg,omitempty"`
}

// ---- generator ----------------------------------------------------------------------------------

var c16Vars = []struct {
	name       string
	selectable bool
}{{"ARGS", true}, {"ARGS_GET", true}, {"ARGS_NAMES", true}, {"REQUEST_HEADERS", true}, {"REQUEST_COOKIES", true}, {"TX", true}, {"FILES", true},
	{"REQUEST_URI", false}, {"REQUEST_BODY", false}, {"REQUEST_METHOD", false}, {"RESPONSE_STATUS", false}, {"QUERY_STRING", false}, {"RESPONSE_HEADERS", true}, {"GEO", true}, {"ENV", true}}

var c16Keys = []string{"a", "User-Agent", "x_y", "a.b", "a:b", "a,b", "k=v", "a/b", "a/", "p/q/", "0", "é", "A-B.c:d,e", "%{tx.a}", "a\"b", "[0]"}
var c16RxKeys = []string{"^a", "a|b", "x\\/y", "^(a|b)$", "a,b", "a:b", "it's", "[a-c]+", "\\d+", ".", "a\"b", "^json\\.\\d+\\.x$",
	// upper-case letters: the same text means different compiled keys on case-sensitive (ARGS*) and case-insensitive collections
	"^X-Tok", "[A-C]+x", "^Foo\\d", "^X-Tok"}
var c16OpArgs = []string{"abc", "a b", "a,b:c", "it's", "say \"hi\"", "\"", "a\\b", "\\d+\\s", "^(?:a|b)$", "x\\\\y", "%{tx.a}", "'quoted'", "a|b", "é\xff", "`tick`", "#nocomment", "a  b", "\t tab", "@not-an-op", "!bang", "\\\\", "100%"}
var c16ActVals = []string{"abc", "a b", "a, b: c", "it\\'s", "with:colon", "with,comma", "\\'", "a\\'b, c\\'d", "%{tx.a} x", "\"dq\"", "é", "a\\\\b", "semi;colon", "x=y",
	// a value whose last character is an escaped backslash: the quote that follows closes the value
	"C:\\\\", "tail\\\\"}

func genC16Target(t *rapid.T, neg bool) Target {
	v := rapid.SampledFrom(c16Vars).Draw(t, "var")
	tg := Target{Var: v.name, Neg: neg}
	if v.selectable {
		switch rapid.IntRange(0, 3).Draw(t, "sel") {
		case 1, 2:
			tg.Key = rapid.SampledFrom(c16Keys).Draw(t, "key")
		case 3:
			tg.Rx, tg.Key = true, rapid.SampledFrom(c16RxKeys).Draw(t, "rxkey")
		}
	}
	if !neg && rapid.IntRange(0, 5).Draw(t, "count") == 0 {
		tg.Count = true
	}
	return tg
}

func genC16Actions(t *rapid.T, link bool) []DAction {
	var as []DAction
	val := func(label string) (string, bool) {
		v := rapid.SampledFrom(c16ActVals).Draw(t, label)
		needQuote := strings.ContainsAny(v, " ,'\"") || strings.Contains(v, "\\'")
		return v, needQuote || rapid.Bool().Draw(t, label+"q")
	}
	n := rapid.IntRange(0, 5).Draw(t, "nacts")
	for i := 0; i < n; i++ {
		switch rapid.IntRange(0, 11).Draw(t, "act") {
		case 0:
			v, q := val("msg")
			as = append(as, DAction{"msg", v, q})
		case 1:
			v, q := val("tag")
			as = append(as, DAction{"tag", v, q})
		case 2:
			v, q := val("logdata")
			as = append(as, DAction{"logdata", v, q})
		case 3:
			as = append(as, DAction{"setvar", rapid.SampledFrom([]string{"tx.a=1", "tx.a=+1", "!tx.a", "tx.b", "tx.c=a, b: c", "tx.%{rule.id}-x=%{matched_var}", "TX.Score=+%{tx.w}", "tx.d=it\\'s"}).Draw(t, "setvar"), false})
			if strings.ContainsAny(as[len(as)-1].Value, " ,'") {
				as[len(as)-1].Quote = true
			} else {
				as[len(as)-1].Quote = rapid.Bool().Draw(t, "setvarq")
			}
		case 4:
			as = append(as, DAction{"t", rapid.SampledFrom([]string{"none", "lowercase", "urlDecodeUni", "trim", "removeNulls", "htmlEntityDecode"}).Draw(t, "t"), false})
		case 5:
			as = append(as, DAction{"severity", rapid.SampledFrom([]string{"2", "CRITICAL", "notice", "7"}).Draw(t, "sev"), rapid.Bool().Draw(t, "sevq")})
		case 6:
			as = append(as, DAction{Name: rapid.SampledFrom([]string{"log", "nolog", "auditlog", "noauditlog", "capture", "multiMatch"}).Draw(t, "flag")})
		case 7:
			as = append(as, DAction{"status", rapid.SampledFrom([]string{"403", "302", "500"}).Draw(t, "status"), false})
		case 8:
			as = append(as, DAction{"rev", rapid.SampledFrom([]string{"1", "2.1.3", "a b"}).Draw(t, "rev"), true})
		case 9:
			as = append(as, DAction{"ver", rapid.SampledFrom([]string{"OWASP_CRS/3.3", "v 1"}).Draw(t, "ver"), true})
		case 10:
			as = append(as, DAction{"ctl", rapid.SampledFrom([]string{"ruleEngine=Off", "auditLogParts=+E", "ruleRemoveTargetById=5;ARGS:a", "ruleRemoveTargetById=5;ARGS:/^a,b/", "ruleRemoveById=1-9"}).Draw(t, "ctl"), false})
		case 11:
			as = append(as, DAction{"maturity", rapid.SampledFrom([]string{"1", "9"}).Draw(t, "mat"), false})
		}
	}
	for i := range as {
		// a value containing a separator of the action list has to be quoted
		if strings.ContainsAny(as[i].Value, ", '") {
			as[i].Quote = true
		}
	}
	if !link {
		switch rapid.IntRange(0, 4).Draw(t, "disr") {
		case 0:
			as = append(as, DAction{Name: "deny"})
		case 1:
			as = append(as, DAction{Name: "pass"})
		case 2:
			as = append(as, DAction{"redirect", "http://x/?a=b,c", true})
		case 3:
			as = append(as, DAction{"allow", "phase", false})
		}
	}
	return as
}

func genC16Rule(t *rapid.T, r *DRule, link bool) {
	nt := rapid.IntRange(1, 3).Draw(t, "ntargets")
	for i := 0; i < nt; i++ {
		r.Targets = append(r.Targets, genC16Target(t, false))
	}
	if rapid.IntRange(0, 2).Draw(t, "excl") == 0 {
		x := genC16Target(t, true)
		x.Var = r.Targets[0].Var
		sel := false
		for _, v := range c16Vars {
			if v.name == x.Var {
				sel = v.selectable
			}
		}
		if !sel {
			x.Key, x.Rx = "", false
		}
		r.Targets = append(r.Targets, x)
	}
	r.OpName = rapid.SampledFrom([]string{"rx", "streq", "contains", "pm", "beginsWith", "within", "strmatch"}).Draw(t, "op")
	r.OpNeg = rapid.IntRange(0, 4).Draw(t, "neg") == 0
	r.OpArg = rapid.SampledFrom(c16OpArgs).Draw(t, "oparg")
	if r.OpName == "rx" {
		r.OpArg = rapid.SampledFrom([]string{"abc", "a b", "^(?:a|b)$", "say \"hi\"", "\\d+\\s", "it's", "a,b:c", "x\\\\y", "[\"']", "é", "\\x41"}).Draw(t, "rxarg")
	}
	r.Actions = genC16Actions(t, link)
}

func genC16(t *rapid.T) *C16Case {
	c := &C16Case{}
	n := rapid.IntRange(1, 3).Draw(t, "nrules")
	for i := 0; i < n; i++ {
		r := &DRule{ID: 100 + i, Phase: rapid.IntRange(1, 5).Draw(t, "phase")}
		genC16Rule(t, r, false)
		if rapid.IntRange(0, 3).Draw(t, "chain") == 0 {
			nl := rapid.IntRange(1, 2).Draw(t, "links")
			for j := 0; j < nl; j++ {
				l := &DRule{}
				genC16Rule(t, l, true)
				r.Chain = append(r.Chain, l)
			}
		}
		c.Rules = append(c.Rules, r)
	}
	ns := rapid.IntRange(3, 5).Draw(t, "nstyles")
	for i := 0; i < ns; i++ {
		c.Styles = append(c.Styles, C16Style{Seed: rapid.SliceOfN(rapid.Byte(), 4, 12).Draw(t, "styleseed"), SplitFile: rapid.IntRange(0, 3).Draw(t, "split") == 0,
			TrailingContinuation: rapid.IntRange(0, 5).Draw(t, "trailcont") == 0, LongComment: rapid.IntRange(0, 9).Draw(t, "longcomment") == 0})
	}
	if rapid.IntRange(0, 2).Draw(t, "nearmiss") == 0 {
		c.NearMiss = rapid.SampledFrom([]string{"del-quote", "dup-open-quote", "del-pipe", "dup-pipe", "dup-comma", "trailing-comma", "del-id-colon", "del-blank",
			"del-pipe-after-regex", "del-action-quote", "del-regex-close-slash", "del-regex-close-slash"}).Draw(t, "misskind")
		if c.NearMiss == "del-action-quote" && known("C16-unclosed-action-quote-warning") {
			// known finding: an unclosed quote in the action list is a warning, not an error
			statExcluded("C16-unclosed-action-quote-warning")
			c.NearMiss = "del-quote"
		}
		c.MissArg = rapid.IntRange(0, 3).Draw(t, "missarg")
	}
	return c
}

// ---- renderer (written from the documented grammar) -----------------------------------------------

type styler struct {
	seed []byte
	pos  int
}

func (s *styler) next() byte {
	if len(s.seed) == 0 {
		return 0
	}
	b := s.seed[s.pos%len(s.seed)]
	s.pos++
	return b
}

func (s *styler) mixCase(name string) string {
	if s == nil {
		return name
	}
	switch s.next() % 4 {
	case 0:
		return strings.ToUpper(name)
	case 1:
		return strings.ToLower(name)
	case 2:
		b := []byte(name)
		for i := range b {
			if i%2 == 0 && b[i] >= 'a' && b[i] <= 'z' {
				b[i] -= 32
			}
		}
		return string(b)
	}
	return name
}

func renderDAction(a DAction, st *styler) string {
	name := a.Name
	if st != nil {
		name = st.mixCase(a.Name)
	}
	if a.Value == "" && !a.Quote {
		return name
	}
	if a.Quote {
		return name + ":'" + a.Value + "'"
	}
	return name + ":" + a.Value
}

// tokens returns the directive as tokens between which a line may be continued with '\'.
func (r *DRule) tokens(link bool, hasNext bool, st *styler) []string {
	dir := "SecRule"
	if st != nil {
		dir = st.mixCase(dir)
	}
	op := ""
	if r.OpNeg {
		op = "!"
	}
	op += "@" + r.OpName + " " + strings.ReplaceAll(r.OpArg, "\"", "\\\"")
	var acts []string
	if !link {
		idv := DAction{"id", strconv.Itoa(r.ID), false}
		if st != nil && st.next()%3 == 0 {
			idv.Quote = true
		}
		acts = append(acts, renderDAction(idv, st), renderDAction(DAction{"phase", strconv.Itoa(r.Phase), false}, st))
	}
	for _, a := range r.Actions {
		acts = append(acts, renderDAction(a, st))
	}
	if hasNext {
		acts = append(acts, renderDAction(DAction{Name: "chain"}, st))
	}
	toks := []string{dir, renderTargets(r.Targets), "\"" + op + "\""}
	if len(acts) > 0 {
		// the action list may be continued after any comma
		for i, a := range acts {
			s := a
			if i == 0 {
				s = "\"" + s
			}
			if i == len(acts)-1 {
				s += "\""
			} else {
				s += ","
			}
			toks = append(toks, s)
		}
	}
	return toks
}

func joinTokens(toks []string, st *styler) string {
	var sb strings.Builder
	if st != nil {
		sb.WriteString(strings.Repeat(" ", int(st.next()%5)))
		if st.next()%4 == 0 {
			sb.WriteString("\t")
		}
	}
	for i, tk := range toks {
		// a line may also be continued in the middle of a token: the pieces are joined as they are
		if st != nil && len(tk) >= 2 && st.next()%4 == 0 {
			p := 1 + int(st.next())%(len(tk)-1)
			// (also directly behind a backslash that belongs to the text: exactly the continuation backslash is removed)
			if tk[p-1] != ' ' && tk[p-1] != '\t' && tk[p] != ' ' && tk[p] != '\t' && tk[p] != '#' && tk[p] != '`' {
				tk = tk[:p] + "\\\n" + tk[p:]
			}
		}
		sb.WriteString(tk)
		if i == len(toks)-1 {
			break
		}
		inActs := i >= 3 // between two actions: no blank is required
		sep := " "
		if !inActs && st != nil && st.next()%5 == 0 {
			sep = "  " // more than one blank between the directive, its targets, the operator and the actions
		}
		if inActs {
			sep = ""
			if st != nil && st.next()%3 == 0 {
				sep = " "
			}
		}
		if st != nil && st.next()%3 == 0 {
			// line continuation; the next line may be indented (leading blanks are trimmed)
			sb.WriteString(sep + "\\\n" + strings.Repeat(" ", int(st.next()%6)))
			continue
		}
		sb.WriteString(sep)
	}
	return sb.String()
}

func (r *DRule) render(st *styler) string {
	var lines []string
	lines = append(lines, joinTokens(r.tokens(false, len(r.Chain) > 0, st), st))
	for i, l := range r.Chain {
		lines = append(lines, joinTokens(l.tokens(true, i+1 < len(r.Chain), st), st))
	}
	return strings.Join(lines, "\n") + "\n"
}

func (c *C16Case) renderAll(style *C16Style) (main string, files map[string]string) {
	files = map[string]string{}
	var st *styler
	if style != nil {
		st = &styler{seed: style.Seed}
	}
	var sb strings.Builder
	for i, r := range c.Rules {
		if st != nil && st.next()%3 == 0 {
			sb.WriteString("# a comment line, \"quotes\" and 'all' \\\n")
			sb.WriteString("\n   \n")
		}
		if style != nil && style.LongComment && i == len(c.Rules)/2 {
			sb.WriteString("# " + strings.Repeat("long comment ", 5400) + "\n")
		}
		if i == 1 {
			// a marker between the first two rules: any number of blanks may separate a directive from its argument
			blanks := " "
			if st != nil {
				blanks = strings.Repeat(" ", 1+int(st.next()%3))
			}
			sb.WriteString("SecMarker" + blanks + "C16_MARK\n")
		}
		text := r.render(st)
		if style != nil && style.TrailingContinuation && i == len(c.Rules)-1 {
			text = strings.TrimRight(text, "\n") + " \\"
			if st.next()%2 == 0 {
				text += "\n"
			}
		}
		if style != nil && style.SplitFile && i > 0 {
			name := fmt.Sprintf("c16-%d-%d.conf", os.Getpid(), i)
			files[name] = text
			sb.WriteString("Include " + tmpPlaceholder + "/" + name + "\n")
			continue
		}
		sb.WriteString(text)
	}
	return sb.String(), files
}

// ---- compile and dump ---------------------------------------------------------------------------------

func c16Mask(path string) bool {
	for _, suf := range []string{".File_", ".Line_", ".Raw_", ".memoizer"} {
		if strings.HasSuffix(path, suf) {
			return true
		}
	}
	return false
}

func compileText(text string, files map[string]string) (rules []corazawaf.Rule, err error, fail *Failure) {
	for name, content := range files {
		_ = os.WriteFile(filepath.Join(privateTmp, name), []byte(content), 0o644)
	}
	defer func() {
		for name := range files {
			_ = os.Remove(filepath.Join(privateTmp, name))
		}
	}()
	fail = guard("parser", func() {
		waf := corazawaf.NewWAF()
		p := seclang.NewParser(waf)
		err = p.FromString(expandTmp(text))
		rules = waf.Rules.GetRules()
		_ = waf.Close()
	})
	return
}

func fieldStr(v reflect.Value, name string) reflect.Value { return accessible(v.FieldByName(name)) }

// describeCompiled extracts, by reflection, the parts of a compiled rule the description talks about.
func describeCompiled(r *corazawaf.Rule) []string {
	var out []string
	rv := reflect.ValueOf(r).Elem()
	vars := fieldStr(rv, "variables")
	for i := 0; i < vars.Len(); i++ {
		v := accessible(vars.Index(i))
		name := fieldStr(v, "Variable").MethodByName("Name").Call(nil)[0].String()
		line := fmt.Sprintf("target %s key=%q", name, fieldStr(v, "KeyStr").String())
		if rx := fieldStr(v, "KeyRx"); !rx.IsNil() {
			line += fmt.Sprintf(" rx=%q", rx.MethodByName("String").Call(nil)[0].String())
		}
		if fieldStr(v, "Count").Bool() {
			line += " count"
		}
		ex := fieldStr(v, "Exceptions")
		for j := 0; j < ex.Len(); j++ {
			e := accessible(ex.Index(j))
			line += fmt.Sprintf(" except(%q", fieldStr(e, "KeyStr").String())
			if rx := fieldStr(e, "KeyRx"); !rx.IsNil() {
				line += fmt.Sprintf(" rx=%q", rx.MethodByName("String").Call(nil)[0].String())
			}
			line += ")"
		}
		out = append(out, line)
	}
	if op := fieldStr(rv, "operator"); !op.IsNil() {
		o := op.Elem()
		out = append(out, fmt.Sprintf("operator %s data=%q negation=%v", fieldStr(o, "Function").String(), fieldStr(o, "Data").String(), fieldStr(o, "Negation").Bool()))
	}
	acts := fieldStr(rv, "actions")
	var names []string
	for i := 0; i < acts.Len(); i++ {
		a := accessible(acts.Index(i))
		n := fieldStr(a, "Name").String()
		names = append(names, n)
		if n == "setvar" {
			fn := fieldStr(a, "Function").Elem().Elem()
			key, val := "", "<none>"
			if k := fieldStr(fn, "key"); !k.IsNil() {
				key = accessible(k.Elem().Elem().FieldByName("original")).String()
			}
			if vv := fieldStr(fn, "value"); !vv.IsNil() {
				val = accessible(vv.Elem().Elem().FieldByName("original")).String()
			}
			out = append(out, fmt.Sprintf("setvar key=%q value=%q remove=%v", key, val, fieldStr(fn, "isRemove").Bool()))
		}
	}
	out = append(out, "actions "+strings.Join(names, ","))
	out = append(out, fmt.Sprintf("id=%d phase=%d status=%d tags=%q rev=%q ver=%q", r.ID_, r.Phase_, r.DisruptiveStatus, r.Tags_, r.Rev_, r.Version_))
	if r.Msg != nil {
		out = append(out, fmt.Sprintf("msg=%q", r.Msg.String()))
	}
	if r.LogData != nil {
		out = append(out, fmt.Sprintf("logdata=%q", r.LogData.String()))
	}
	out = append(out, fmt.Sprintf("capture=%v multimatch=%v log=%v audit=%v haschain=%v", r.Capture, r.MultiMatch, r.Log, r.Audit, r.HasChain))
	return out
}

// whether an action is a metadata action (initialised but not kept in the rule's action list) is
// read from the action's own Type(); the description does not care about the distinction
func c16IsMeta(name string) bool {
	a, err := actionsmod.Get(name)
	return err == nil && a.Type() == plugintypes.ActionTypeMetadata
}

func lowerUnlessArgs(v, key string) string {
	if argsFamily[v] {
		return key
	}
	return strings.ToLower(key)
}

// describeExpected computes the same lines from the description.
func describeExpected(d *DRule, link bool, phase int, hasNext bool) []string {
	var out []string
	for i, tg := range d.Targets {
		if tg.Neg {
			continue
		}
		line := fmt.Sprintf("target %s ", tg.Var)
		if tg.Rx {
			line += fmt.Sprintf("key=%q rx=%q", lowerUnlessArgs(tg.Var, "/"+tg.Key+"/"), lowerUnlessArgs(tg.Var, tg.Key))
		} else {
			line += fmt.Sprintf("key=%q", lowerUnlessArgs(tg.Var, tg.Key))
		}
		if tg.Count {
			line += " count"
		}
		for _, x := range d.Targets[i+1:] {
			if !x.Neg || x.Var != tg.Var {
				continue
			}
			if x.Rx {
				line += fmt.Sprintf(" except(%q rx=%q)", "/"+x.Key+"/", lowerUnlessArgs(x.Var, x.Key))
			} else {
				line += fmt.Sprintf(" except(%q)", x.Key)
			}
		}
		out = append(out, line)
	}
	fn := "@" + d.OpName
	if d.OpNeg {
		fn = "!" + fn
	}
	out = append(out, fmt.Sprintf("operator %s data=%q negation=%v", fn, strings.TrimSpace(d.OpArg), d.OpNeg))
	var names []string
	// chain links are parsed as phase-2 rules (rule_parser.go: "TODO we must remove defaultactions from
	// chains"), so they always receive the built-in phase-2 default actions
	// (a link written without any action string is not given any)
	defaults := (phase == 2 && !link) || (link && (len(d.Actions) > 0 || hasNext))
	if defaults {
		names = append(names, "log", "auditlog")
	}
	hasDisr := false
	status := 0
	var tags []string
	rev, ver, msg, logdata := "", "", "", ""
	hasMsg, hasLogdata := false, false
	capture, multi := false, false
	logf, audit := defaults, defaults
	for _, a := range d.Actions {
		ln := strings.ToLower(a.Name)
		switch ln {
		case "setvar":
			spec := a.Value
			remove := strings.HasPrefix(spec, "!")
			spec = strings.TrimPrefix(spec, "!")
			kpart, vpart, hasVal := strings.Cut(spec, "=")
			_, key, _ := strings.Cut(kpart, ".")
			val := "<none>"
			if hasVal {
				val = vpart
			} else if !remove {
				val = "1"
			}
			out = append(out, fmt.Sprintf("setvar key=%q value=%q remove=%v", key, val, remove))
		case "status":
			status, _ = strconv.Atoi(a.Value)
		case "tag":
			tags = append(tags, a.Value)
		case "rev":
			rev = a.Value
		case "ver":
			ver = a.Value
		case "msg":
			msg, hasMsg = a.Value, true
		case "logdata":
			logdata, hasLogdata = a.Value, true
		case "capture":
			capture = true
		case "multimatch":
			multi = true
		case "log":
			logf, audit = true, true
		case "nolog":
			logf, audit = false, false
		case "auditlog":
			audit = true
		case "noauditlog":
			audit = false
		case "deny", "pass", "redirect", "allow":
			hasDisr = true
		}
		if !c16IsMeta(ln) {
			names = append(names, ln)
		}
	}
	if hasNext {
		names = append(names, "chain")
	}
	if defaults && !hasDisr {
		names = append(names, "pass")
	}
	out = append(out, "actions "+strings.Join(names, ","))
	id := d.ID
	ph := phase
	if link {
		id, ph = 0, 0
	}
	if tags == nil {
		tags = []string{}
	}
	out = append(out, fmt.Sprintf("id=%d phase=%d status=%d tags=%q rev=%q ver=%q", id, ph, status, tags, rev, ver))
	if hasMsg {
		out = append(out, fmt.Sprintf("msg=%q", msg))
	}
	if hasLogdata {
		out = append(out, fmt.Sprintf("logdata=%q", logdata))
	}
	out = append(out, fmt.Sprintf("capture=%v multimatch=%v log=%v audit=%v haschain=%v", capture, multi, logf, audit, hasNext))
	return out
}

func sortedLines(l []string) string {
	// setvar lines are positional relative to each other but interleave with "actions": keep order
	return strings.Join(l, "\n")
}

func (c *C16Case) nearMissText() (string, bool) {
	text, _ := c.renderAll(nil)
	first := strings.SplitN(text, "\n", 2)[0]
	rest := text[len(first):]
	r := c.Rules[0]
	quotes := []int{}
	// the four structural quotes of the canonical rendering: around the operator and around the action list
	opStart := strings.Index(first, " \"") + 1
	quotes = append(quotes, opStart)
	op := ""
	if r.OpNeg {
		op = "!"
	}
	op += "@" + r.OpName + " " + strings.ReplaceAll(r.OpArg, "\"", "\\\"")
	opEnd := opStart + 1 + len(op)
	quotes = append(quotes, opEnd, opEnd+2, len(first)-1)
	switch c.NearMiss {
	case "del-quote":
		q := quotes[c.MissArg%4]
		if q == len(first)-1 && q > 0 && first[q-1] == '\\' {
			return "", false // without its closing quote the line would end in a continuation backslash: another text, not a near miss
		}
		return first[:q] + first[q+1:] + rest, true
	case "dup-open-quote":
		q := quotes[(c.MissArg%2)*2] // operator or action list opening quote
		return first[:q] + "\"" + first[q:] + rest, true
	case "del-pipe", "dup-pipe":
		tgs := renderTargets(r.Targets)
		// only a '|' that separates two plain variable names (no key, count or negation around it)
		for i := 0; i+1 < len(r.Targets); i++ {
			a, b := r.Targets[i], r.Targets[i+1]
			if a.Key != "" || a.Rx || b.Neg || b.Count {
				continue
			}
			prefix := renderTargets(r.Targets[:i+1])
			if c.NearMiss == "del-pipe" {
				return strings.Replace(first, tgs, prefix+tgs[len(prefix)+1:], 1) + rest, true
			}
			return strings.Replace(first, tgs, prefix+"|"+tgs[len(prefix):], 1) + rest, true
		}
		return "", false
	case "del-pipe-after-regex":
		for i := 0; i+1 < len(r.Targets); i++ {
			if !r.Targets[i].Rx {
				continue
			}
			prefix := renderTargets(r.Targets[:i+1])
			tgs := renderTargets(r.Targets)
			return strings.Replace(first, tgs, prefix+tgs[len(prefix)+1:], 1) + rest, true
		}
		return "", false
	case "del-regex-close-slash":
		// the last target is a regex key: without its closing slash the expression never ends
		last := r.Targets[len(r.Targets)-1]
		if !last.Rx {
			return "", false
		}
		tgs := renderTargets(r.Targets)
		if !strings.HasSuffix(tgs, "/") || !strings.Contains(first, tgs+" ") {
			return "", false
		}
		return strings.Replace(first, tgs+" ", tgs[:len(tgs)-1]+" ", 1) + rest, true
	case "del-action-quote":
		// the closing quote of a quoted action value that is followed by another action
		i := strings.Index(first, "',")
		if i < 0 || strings.Count(first[:i], "'")%2 == 0 {
			return "", false
		}
		return first[:i] + first[i+1:] + rest, true
	case "dup-comma":
		i := strings.Index(first, "phase:")
		if i < 0 {
			return "", false
		}
		return first[:i] + "," + first[i:] + rest, true
	case "trailing-comma":
		return first[:len(first)-1] + ",\"" + rest, true
	case "del-id-colon":
		return strings.Replace(first, "\"id:", "\"id", 1) + rest, true
	case "del-blank":
		return first[:opStart-1] + first[opStart:] + rest, true
	}
	return "", false
}

func checkC16(c *C16Case) Result {
	res := Result{}
	canon, _ := c.renderAll(nil)
	rules, err, f := compileText(canon, nil)
	if f != nil {
		res.Fail = f
		return res
	}
	if err != nil {
		res.Fail = failf("the canonical rendering of a representable description was rejected: %v\n%s", err, canon)
		return res
	}
	// the marker rendered between the first two rules is a rule of its own in the compiled list
	allRules := rules
	rules = nil
	for i := range allRules {
		if allRules[i].SecMark_ == "" {
			rules = append(rules, allRules[i])
		}
	}
	if len(rules) != len(c.Rules) {
		res.Fail = failf("%d rules rendered, %d compiled\n%s", len(c.Rules), len(rules), canon)
		return res
	}
	if len(c.Rules) >= 2 && (len(allRules) != len(rules)+1 || allRules[1].SecMark_ != "C16_MARK") {
		res.Fail = failf("the marker C16_MARK written after the first rule is not the second compiled rule\n%s", canon)
		return res
	}
	// (a) the compiled rules equal the description
	for i, d := range c.Rules {
		got := describeCompiled(&rules[i])
		want := describeExpected(d, false, d.Phase, len(d.Chain) > 0)
		cr := rules[i].Chain
		for j, l := range d.Chain {
			if cr == nil {
				res.Fail = failf("chain link %d of rule %d is missing after compilation\n%s", j, d.ID, canon)
				return res
			}
			got = append(got, "-- link")
			got = append(got, describeCompiled(cr)...)
			want = append(want, "-- link")
			want = append(want, describeExpected(l, true, d.Phase, j+1 < len(d.Chain))...)
			cr = cr.Chain
		}
		if sortedLines(got) != sortedLines(want) {
			res.Fail = failf("rule %d does not compile back to its description:\n--- compiled\n%s\n--- description\n%s\n--- text\n%s", d.ID, strings.Join(got, "\n"), strings.Join(want, "\n"), canon)
			return res
		}
	}
	base := deepDump(allRules, c16Mask)
	// (b) every equivalent rendering compiles to the same rules
	for si := range c.Styles {
		text, files := c.renderAll(&c.Styles[si])
		vr, err, f := compileText(text, files)
		if f != nil {
			res.Fail = f
			return res
		}
		if err != nil {
			res.Fail = failf("an equivalent rendering was rejected: %v\n--- canonical\n%s--- variant\n%s%v", err, canon, text, files)
			return res
		}
		if d := diffDumps(base, deepDump(vr, c16Mask)); d != "" {
			res.Fail = failf("an equivalent rendering compiles to different rules (- canonical, + variant):\n%s--- canonical\n%s--- variant\n%s%v", d, canon, text, files)
			return res
		}
		if c.Styles[si].SplitFile && len(files) > 0 {
			res.Labels = append(res.Labels, "split-across-included-files")
		}
		if strings.Contains(text, "\\\n") {
			res.Labels = append(res.Labels, "line-continuation")
		}
		if c.Styles[si].TrailingContinuation {
			res.Labels = append(res.Labels, "text-ends-with-continuation")
		}
		if c.Styles[si].LongComment {
			res.Labels = append(res.Labels, "line-longer-than-64k")
		}
	}
	// (b2) plain keys written between single quotes (VAR:'key'): the same rules, or an error - never another key
	{
		quoted := &C16Case{}
		n := 0
		for _, r := range c.Rules {
			cp := *r
			cp.Targets = append([]Target(nil), r.Targets...)
			for i := range cp.Targets {
				k := cp.Targets[i].Key
				if !cp.Targets[i].Rx && k != "" && !strings.ContainsAny(k, "'|\" \\%") && k[0] != '/' {
					cp.Targets[i].Key = "'" + k + "'"
					n++
				}
			}
			cp.Chain = nil
			for _, l := range r.Chain {
				lc := *l
				lc.Targets = append([]Target(nil), l.Targets...)
				for i := range lc.Targets {
					k := lc.Targets[i].Key
					if !lc.Targets[i].Rx && k != "" && !strings.ContainsAny(k, "'|\" \\%") && k[0] != '/' {
						lc.Targets[i].Key = "'" + k + "'"
						n++
					}
				}
				cp.Chain = append(cp.Chain, &lc)
			}
			quoted.Rules = append(quoted.Rules, &cp)
		}
		if n > 0 {
			text, _ := quoted.renderAll(nil)
			vr, err, f := compileText(text, nil)
			if f != nil {
				res.Fail = f
				return res
			}
			if err != nil {
				res.Labels = append(res.Labels, "quoted-key-rejected")
			} else {
				if d := diffDumps(base, deepDump(vr, c16Mask)); d != "" {
					res.Fail = failf("plain keys written between single quotes compile to different rules (- canonical, + quoted):\n%s--- canonical\n%s--- quoted\n%s", d, canon, text)
					return res
				}
				res.Labels = append(res.Labels, "quoted-key-same-rule")
			}
		}
	}
	// (b3) the same rules spread over files nested three levels deep in different directories, with a rule that
	// names a data file relative to the directory of the OUTER file after the nested includes have ended
	if len(c.Rules) >= 3 {
		dir := filepath.Join(privateTmp, fmt.Sprintf("c16n-%d", os.Getpid()))
		_ = os.MkdirAll(filepath.Join(dir, "m", "l"), 0o755)
		_ = os.WriteFile(filepath.Join(dir, "words.dat"), []byte("alpha\nbeta\n"), 0o644)
		tail := "SecRule ARGS \"@pmFromFile words.dat\" \"id:9990,phase:1,pass\"\n"
		var flat strings.Builder
		for _, r := range c.Rules {
			flat.WriteString(r.render(nil))
		}
		_ = os.WriteFile(filepath.Join(dir, "flat.conf"), []byte(flat.String()+tail), 0o644)
		_ = os.WriteFile(filepath.Join(dir, "m", "l", "leaf.conf"), []byte(c.Rules[1].render(nil)), 0o644)
		var mid strings.Builder
		mid.WriteString("Include " + filepath.Join(dir, "m", "l", "leaf.conf") + "\n")
		mid.WriteString(c.Rules[2].render(nil))
		_ = os.WriteFile(filepath.Join(dir, "m", "mid.conf"), []byte(mid.String()), 0o644)
		var top strings.Builder
		top.WriteString(c.Rules[0].render(nil))
		top.WriteString("Include " + filepath.Join(dir, "m", "mid.conf") + "\n")
		for _, r := range c.Rules[3:] {
			top.WriteString(r.render(nil))
		}
		_ = os.WriteFile(filepath.Join(dir, "top.conf"), []byte(top.String()+tail), 0o644)
		fr, ferr, f1 := compileText("Include "+filepath.Join(dir, "flat.conf")+"\n", nil)
		nr, nerr, f2 := compileText("Include "+filepath.Join(dir, "top.conf")+"\n", nil)
		_ = os.RemoveAll(dir)
		if f1 != nil || f2 != nil {
			if f1 == nil {
				f1 = f2
			}
			res.Fail = f1
			return res
		}
		if ferr == nil {
			if nerr != nil {
				res.Fail = failf("the rules spread over nested included files were rejected (%v) while the same rules in one file compile:\n%s", nerr, top.String()+tail)
				return res
			}
			if d := diffDumps(deepDump(fr, c16Mask), deepDump(nr, c16Mask)); d != "" {
				res.Fail = failf("the rules spread over nested included files compile to different rules (- one file, + nested):\n%s", d)
				return res
			}
			res.Labels = append(res.Labels, "nested-includes-in-different-directories")
		}
	}
	// (c) near-miss texts are rejected
	if c.NearMiss != "" {
		if text, ok := c.nearMissText(); ok {
			_, err, f := compileText(text, nil)
			if f != nil {
				res.Fail = f
				return res
			}
			if err == nil {
				res.Fail = failf("near-miss text (%s) was accepted instead of rejected:\n%s--- derived from\n%s", c.NearMiss, text, canon)
				return res
			}
			res.Labels = append(res.Labels, "near-miss:"+c.NearMiss)
		}
	}
	// labels
	for _, d := range c.Rules {
		for _, tg := range d.Targets {
			if strings.ContainsAny(tg.Key, ":,'/\"") {
				res.Labels = append(res.Labels, "delimiter-in-key")
				res.NonTrivial = true
			}
			if tg.Rx && strings.Contains(tg.Key, "|") {
				res.Labels = append(res.Labels, "pipe-in-regex-key")
			}
		}
		if strings.ContainsAny(d.OpArg, "\"\\',") {
			res.Labels = append(res.Labels, "delimiter-in-operator-argument")
			res.NonTrivial = true
		}
		for _, a := range d.Actions {
			if strings.ContainsAny(a.Value, ",:'") {
				res.Labels = append(res.Labels, "delimiter-in-action-value")
				res.NonTrivial = true
			}
			if strings.Contains(a.Value, "\\'") {
				res.Labels = append(res.Labels, "escaped-quote-in-action-value")
			}
		}
		if len(d.Chain) > 0 {
			res.Labels = append(res.Labels, "chain")
		}
	}
	return res
}

func TestC16(t *testing.T) {
	runProp(t, "C16", genC16, checkC16)
}

func init() {
	registerReplay("C16", func(c *C16Case) *Failure { return checkC16(c).Fail })
}
