// C20 — Failures are reported, never swallowed, and no temporary files are left behind.
package verifharness

import (
	"bytes"
	"context"
	"encoding/json"
	"errors"
	"fmt"
	"os"
	"os/exec"
	"path/filepath"
	"regexp"
	"runtime"
	"sort"
	"strconv"
	"strings"
	"testing"
	"time"

	"github.com/corazawaf/coraza/v3"
	"github.com/corazawaf/coraza/v3/debuglog"
	"github.com/corazawaf/coraza/v3/types"
	"pgregory.net/rapid"
)

type C20Scenario struct {
	BodyKind  string `json:"body_kind"`  // none | small | spill | multipart
	Files     int    `json:"files"`      // uploads in the multipart body
	KeepFiles string `json:"keep_files"` // Off | On | RelevantOnly
	Audit     bool   `json:"audit"`      // audit engine On with a serial writer into the private dir
	AuditType string `json:"audit_type"` // Serial | Concurrent
	Deny      int    `json:"deny_phase"` // 0 none, 1..4
	LogRule   bool   `json:"log_rule"`   // a logging rule matches (RelevantOnly keep-files)
	RespBody  bool   `json:"resp_body"`
	StopAfter int    `json:"stop_after"` // early termination: number of API calls executed before Close (-1: all)
	// body over the limit (BodyKind "over"): the request body limit, its action and the sizes of the successive writes
	Limit       int    `json:"limit,omitempty"`
	LimitAction string `json:"limit_action,omitempty"`
	Chunks      []int  `json:"chunks,omitempty"`
	// OnePiece: the body is handed over in one write (the spill file is created while the buffer is still empty)
	OnePiece bool `json:"one_piece,omitempty"`
	// BadBoundary (multipart): the body never shows the boundary announced in the Content-Type header
	BadBoundary string `json:"bad_boundary,omitempty"` // "", other | indented | text | noeol
}

func genC20Scenario(t *rapid.T) C20Scenario {
	s := C20Scenario{}
	s.BodyKind = rapid.SampledFrom([]string{"none", "small", "spill", "multipart", "multipart"}).Draw(t, "bodykind")
	if s.BodyKind == "multipart" {
		s.Files = rapid.IntRange(0, 3).Draw(t, "files")
		if rapid.IntRange(0, 3).Draw(t, "badboundary") == 0 {
			s.BadBoundary = rapid.SampledFrom([]string{"other", "indented", "text", "noeol"}).Draw(t, "badkind")
		}
	}
	if s.BodyKind == "small" && rapid.Bool().Draw(t, "over") {
		// a body larger than the limit, arriving in several writes; in half of the cases one write ends exactly at the limit
		s.BodyKind = "over"
		s.Limit = rapid.IntRange(16, 64).Draw(t, "limit")
		s.LimitAction = rapid.SampledFrom([]string{"Reject", "ProcessPartial"}).Draw(t, "limitaction")
		if rapid.Bool().Draw(t, "exact") {
			first := rapid.IntRange(1, s.Limit-1).Draw(t, "first")
			s.Chunks = []int{first, s.Limit - first, rapid.IntRange(1, 20).Draw(t, "tail")}
			if rapid.Bool().Draw(t, "onepiece") {
				s.Chunks = []int{s.Limit, rapid.IntRange(1, 20).Draw(t, "tail2")}
			}
		} else {
			rest := s.Limit + rapid.IntRange(1, 30).Draw(t, "excess")
			for rest > 0 {
				n := rapid.IntRange(1, rest).Draw(t, "chunk")
				s.Chunks = append(s.Chunks, n)
				rest -= n
			}
		}
	}
	if s.BodyKind == "spill" || s.BodyKind == "multipart" {
		s.OnePiece = rapid.Bool().Draw(t, "onepiecebody")
	}
	s.KeepFiles = rapid.SampledFrom([]string{"Off", "Off", "On", "RelevantOnly"}).Draw(t, "keep")
	s.Audit = rapid.Bool().Draw(t, "audit")
	s.AuditType = rapid.SampledFrom([]string{"Serial", "Concurrent"}).Draw(t, "audittype")
	s.Deny = rapid.SampledFrom([]int{0, 0, 1, 2, 3, 4}).Draw(t, "deny")
	s.LogRule = rapid.Bool().Draw(t, "logrule")
	s.RespBody = rapid.Bool().Draw(t, "respbody")
	s.StopAfter = -1
	return s
}

func (s *C20Scenario) conf(dir string) string {
	var sb strings.Builder
	limit, action := 100000, "Reject"
	if s.Limit > 0 {
		limit, action = s.Limit, s.LimitAction
	}
	inMem := 32
	if limit < inMem {
		inMem = limit // the in-memory limit may not exceed the body limit
	}
	fmt.Fprintf(&sb, "SecRuleEngine On\nSecRequestBodyAccess On\nSecResponseBodyAccess On\nSecResponseBodyMimeType text/plain\nSecRequestBodyLimit %d\nSecRequestBodyLimitAction %s\nSecRequestBodyInMemoryLimit %d\nSecUploadDir %s/upload\nSecUploadKeepFiles %s\n", limit, action, inMem, dir, s.KeepFiles)
	if s.Audit {
		fmt.Fprintf(&sb, "SecAuditEngine On\nSecAuditLogParts ABCFHJKZ\nSecAuditLogFormat JSON\nSecAuditLogType %s\nSecAuditLog %s/audit/audit.log\nSecAuditLogStorageDir %s/audit\n", s.AuditType, dir, dir)
	}
	sb.WriteString("SecAction \"id:1,phase:2,pass,nolog\"\n") // body phase tracer
	if s.LogRule {
		sb.WriteString("SecAction \"id:2,phase:1,pass,log,msg:'relevant'\"\n")
	}
	if s.Deny > 0 {
		fmt.Fprintf(&sb, "SecAction \"id:3,phase:%d,deny,status:403,nolog\"\n", s.Deny)
	}
	sb.WriteString("SecRule REQBODY_ERROR|MULTIPART_STRICT_ERROR|INBOUND_DATA_ERROR|REQBODY_PROCESSOR_ERROR \"@eq 1\" \"id:4,phase:2,pass,nolog\"\n")
	return sb.String()
}

func (s *C20Scenario) request() (ctype string, body []byte) {
	switch s.BodyKind {
	case "small":
		return "application/x-www-form-urlencoded", []byte("a=1&b=2")
	case "spill":
		return "application/x-www-form-urlencoded", []byte("a=" + strings.Repeat("S", 200))
	case "over":
		n := 0
		for _, k := range s.Chunks {
			n += k
		}
		if n < 3 {
			n = 3
		}
		return "application/x-www-form-urlencoded", []byte("a=" + strings.Repeat("O", n-2))
	case "multipart":
		var sb strings.Builder
		sb.WriteString("--bb\r\nContent-Disposition: form-data; name=\"a\"\r\n\r\nvalue\r\n")
		for i := 0; i < s.Files; i++ {
			fmt.Fprintf(&sb, "--bb\r\nContent-Disposition: form-data; name=\"f%d\"; filename=\"up%d.txt\"\r\nContent-Type: text/plain\r\n\r\n%s\r\n", i, i, strings.Repeat("F", 50+i))
		}
		sb.WriteString("--bb--\r\n")
		body := sb.String()
		switch s.BadBoundary {
		case "other": // a well-formed body, for another boundary than the announced one
			body = strings.ReplaceAll(body, "--bb", "--zz")
		case "indented":
			body = strings.ReplaceAll(body, "--bb", " --bb")
		case "text":
			body = "just some text, no part at all\r\n"
		case "noeol":
			body = "--bbX no line ending and no delimiter"
		}
		return "multipart/form-data; boundary=bb", []byte(body)
	}
	return "", nil
}

type C20Result struct {
	Errors      []string `json:"errors"`       // errors returned by API calls (incl. Close)
	ErrVars     bool     `json:"err_vars"`     // an error variable was set (rule 4 fired)
	DebugErrors int      `json:"debug_errors"` // debug-log entries at error level
	TracerFired bool     `json:"tracer_fired"`
	Interrupted bool     `json:"interrupted"`
	Leftover    []string `json:"leftover"` // files left in the private dirs after Close (audit log files excluded)
	OpenFDs     int      `json:"open_fds"`
	BaseFDs     int      `json:"base_fds"`
	SecondOK    bool     `json:"second_ok"` // a following clean transaction behaved normally
	SecondNote  string   `json:"second_note,omitempty"`
	Panic       string   `json:"panic,omitempty"`
	NewWAFErr   string   `json:"newwaf_err,omitempty"`
}

type countingWriter struct{ n int }

func (c *countingWriter) Write(p []byte) (int, error) {
	c.n += bytes.Count(p, []byte("\n"))
	if c.n == 0 && len(p) > 0 {
		c.n = 1
	}
	return len(p), nil
}

func countFDs() int {
	ents, err := os.ReadDir("/proc/self/fd")
	if err != nil {
		return -1
	}
	return len(ents)
}

func listFiles(dir string) []string {
	var out []string
	_ = filepath.Walk(dir, func(p string, info os.FileInfo, err error) error {
		if err != nil || info.IsDir() {
			return nil
		}
		rel, _ := filepath.Rel(dir, p)
		if strings.HasPrefix(rel, "audit") {
			return nil // audit records are meant to stay
		}
		out = append(out, rel)
		return nil
	})
	sort.Strings(out)
	return out
}

// runScenario executes the scenario in this process, with dir as private temp / upload / audit root.
func runScenario(s *C20Scenario, dir string) *C20Result {
	r := &C20Result{}
	_ = os.MkdirAll(filepath.Join(dir, "upload"), 0o755)
	_ = os.MkdirAll(filepath.Join(dir, "audit"), 0o755)
	_ = os.MkdirAll(filepath.Join(dir, "tmp"), 0o755)
	_ = os.Setenv("TMPDIR", filepath.Join(dir, "tmp"))
	cw := &countingWriter{}
	logger := debuglog.Default().WithOutput(cw).WithLevel(debuglog.LevelError)
	w, err := coraza.NewWAF(coraza.NewWAFConfig().WithDirectives(s.conf(dir)).WithDebugLogger(logger))
	if err != nil {
		r.NewWAFErr = err.Error()
		return r
	}
	r.BaseFDs = countFDs()
	ctype, body := s.request()
	f := guard("scenario transaction", func() {
		tx := w.NewTransaction()
		step := 0
		more := func() bool {
			step++
			return s.StopAfter < 0 || step <= s.StopAfter
		}
		note := func(it *types.Interruption, err error) bool {
			if err != nil {
				r.Errors = append(r.Errors, err.Error())
			}
			if it != nil {
				r.Interrupted = true
			}
			return it != nil
		}
		func() {
			if !more() {
				return
			}
			tx.ProcessConnection("10.0.0.1", 1, "10.0.0.2", 80)
			tx.ProcessURI("/p?q=1", "POST", "HTTP/1.1")
			tx.AddRequestHeader("Host", "h")
			if ctype != "" {
				tx.AddRequestHeader("Content-Type", ctype)
			}
			if !more() {
				return
			}
			if note(tx.ProcessRequestHeaders(), nil) {
				return
			}
			if len(body) > 0 {
				if !more() {
					return
				}
				if len(s.Chunks) > 0 {
					// the connector keeps writing what it receives; it stops when told to (interruption or error)
					off := 0
					for _, k := range s.Chunks {
						if off+k > len(body) {
							k = len(body) - off
						}
						it, _, err := tx.WriteRequestBody(body[off : off+k])
						off += k
						if note(it, err) {
							return
						}
					}
					body = nil
				}
				// the body arrives in two writes: the first stays in memory, the second makes the buffer spill
				cut := len(body)
				if cut > 20 && !s.OnePiece {
					cut = 20
				}
				var it *types.Interruption
				var err error
				if cut > 0 {
					it, _, err = tx.WriteRequestBody(body[:cut])
				}
				if note(it, err) {
					return
				}
				if cut < len(body) {
					it, _, err = tx.WriteRequestBody(body[cut:])
					if note(it, err) {
						return
					}
				}
			}
			if !more() {
				return
			}
			it, err := tx.ProcessRequestBody()
			if note(it, err) {
				return
			}
			if !more() {
				return
			}
			tx.AddResponseHeader("Content-Type", "text/plain")
			if note(tx.ProcessResponseHeaders(200, "HTTP/1.1"), nil) {
				return
			}
			if s.RespBody {
				if !more() {
					return
				}
				it, _, err := tx.WriteResponseBody([]byte(strings.Repeat("R", 300)))
				if note(it, err) {
					return
				}
			}
			if !more() {
				return
			}
			it, err = tx.ProcessResponseBody()
			note(it, err)
		}()
		if s.StopAfter < 0 || r.Interrupted {
			tx.ProcessLogging()
		}
		for _, mr := range tx.MatchedRules() {
			switch mr.Rule().ID() {
			case 1:
				r.TracerFired = true
			case 4:
				r.ErrVars = true
			}
		}
		if err := tx.Close(); err != nil {
			r.Errors = append(r.Errors, "Close: "+err.Error())
		}
	})
	if f != nil {
		r.Panic = f.Msg
		return r
	}
	r.DebugErrors = cw.n
	// from here on the file operations are the harness' own (directory listing, follow-up transaction)
	_, _ = os.Stderr.WriteString("C20MARK-TRANSACTION-CLOSED\n")
	r.Leftover = listFiles(dir)
	r.OpenFDs = countFDs()
	// a following clean transaction on the same WAF behaves normally
	// (the marker lets the tracing parent tell which transaction an injected fault hit)
	_, _ = os.Stderr.WriteString("C20MARK-SECOND-TRANSACTION\n")
	f = guard("following transaction", func() {
		tx := w.NewTransaction()
		tx.ProcessURI("/second", "POST", "HTTP/1.1")
		tx.AddRequestHeader("Content-Type", "application/x-www-form-urlencoded")
		tx.ProcessRequestHeaders()
		second := 102 // spills to disk with the default limits
		if s.Limit > 0 {
			second = s.Limit - 4 // stays under the small body limit of the over-limit scenarios
		}
		it, _, err := tx.WriteRequestBody([]byte("z=" + strings.Repeat("Z", second-2)))
		if err != nil || (it != nil && s.Deny != 1) {
			r.SecondNote = fmt.Sprintf("write: it=%v err=%v", it, err)
		}
		_, err = tx.ProcessRequestBody()
		if err != nil {
			r.SecondNote += " process: " + err.Error()
		}
		rd, _ := tx.RequestBodyReader()
		var buf bytes.Buffer
		if rd != nil {
			_, _ = buf.ReadFrom(rd)
		}
		tracer := false
		for _, mr := range tx.MatchedRules() {
			if mr.Rule().ID() == 1 {
				tracer = true
			}
		}
		if s.Deny == 1 {
			r.SecondOK = tx.IsInterrupted()
		} else {
			r.SecondOK = tracer && buf.Len() == second && r.SecondNote == ""
			if !r.SecondOK && r.SecondNote == "" {
				r.SecondNote = fmt.Sprintf("tracer=%v body=%d bytes", tracer, buf.Len())
			}
		}
		tx.ProcessLogging()
		if s.Audit && s.AuditType == "Serial" && r.SecondOK {
			// the audit log works for the transaction that follows: its record is there, whatever happened to the
			// writer while the first one was being logged
			raw, _ := os.ReadFile(filepath.Join(dir, "audit", "audit.log"))
			if !strings.Contains(string(raw), tx.ID()) {
				r.SecondOK = false
				r.SecondNote = "the audit log holds no record of the following transaction " + tx.ID()
			}
		}
		_ = tx.Close()
	})
	if f != nil {
		r.Panic = f.Msg
	}
	closeWAF(w)
	return r
}

// ---- (a) early termination, in process -------------------------------------------------------------------

var c20Seq int

func checkC20Early(s *C20Scenario) Result {
	res := Result{}
	c20Seq++
	dir := filepath.Join(privateTmp, fmt.Sprintf("c20e-%d", c20Seq))
	defer func() {
		_ = os.RemoveAll(dir)
		_ = os.Setenv("TMPDIR", privateTmp)
	}()
	r := runScenario(s, dir)
	ctx := fmt.Sprintf("\nscenario %+v\nresult %+v", *s, *r)
	if r.NewWAFErr != "" {
		res.Fail = failf("configuration rejected: %s%s", r.NewWAFErr, ctx)
		return res
	}
	if r.Panic != "" {
		res.Fail = &Failure{Msg: r.Panic + ctx, Site: "panic"}
		return res
	}
	if msg := c20Leftovers(s, r); msg != "" {
		res.Fail = failf("%s%s", msg, ctx)
		return res
	}
	if r.OpenFDs > r.BaseFDs {
		// descriptor counts of a long-running process also move for reasons of its own (finalizers, the runtime's
		// poller): a leak of the transaction is deterministic, so it must show again in a second execution
		runtime.GC()
		dir2 := dir + "-again"
		r2 := runScenario(s, dir2)
		_ = os.RemoveAll(dir2)
		if r2.OpenFDs > r2.BaseFDs {
			res.Fail = failf("%d file descriptors open after Close, %d before the transaction (again in a second execution: %d / %d)%s", r.OpenFDs, r.BaseFDs, r2.OpenFDs, r2.BaseFDs, ctx)
			return res
		}
		res.Labels = append(res.Labels, "fd-count-noise")
	}
	if !r.SecondOK {
		res.Fail = failf("a clean transaction after the abandoned one does not behave normally: %s%s", r.SecondNote, ctx)
		return res
	}
	if len(r.Errors) > 0 && s.BadBoundary == "" {
		res.Fail = failf("errors without any injected fault: %v%s", r.Errors, ctx)
		return res
	}
	if s.BadBoundary != "" && (s.StopAfter < 0 || s.StopAfter >= 4) {
		// the body cannot be parsed as announced: a returned error, an error variable or a log entry must say so
		if !(len(r.Errors) > 0 || r.ErrVars || r.DebugErrors > 0 || r.Interrupted) {
			res.Fail = failf("a multipart body that never shows the announced boundary (%s) was accepted as inspected: no error, no error variable, no log entry%s", s.BadBoundary, ctx)
			return res
		}
		res.Labels = append(res.Labels, "multipart-without-announced-boundary")
	}
	if s.BodyKind == "over" && (s.StopAfter < 0 || s.StopAfter >= 4) {
		// every byte was offered and the body is larger than the limit: an interruption, an error variable or an
		// error-level log entry must say so
		if !(r.Interrupted || r.ErrVars || r.DebugErrors > 0) {
			res.Fail = failf("a request body of %v bytes against SecRequestBodyLimit %d (%s) was accepted without any sign: no interruption, no error variable, no log entry%s", s.Chunks, s.Limit, s.LimitAction, ctx)
			return res
		}
		res.Labels = append(res.Labels, "body-over-limit:"+s.LimitAction)
		sum := 0
		for _, k := range s.Chunks[:len(s.Chunks)-1] {
			sum += k
			if sum == s.Limit {
				res.Labels = append(res.Labels, "write-ends-exactly-at-limit")
			}
		}
	}
	res.Labels = append(res.Labels, "body:"+s.BodyKind, "keep:"+s.KeepFiles)
	if s.OnePiece && s.BodyKind == "spill" {
		res.Labels = append(res.Labels, "spill-file-created-for-the-first-write")
	}
	if s.StopAfter >= 0 {
		res.Labels = append(res.Labels, fmt.Sprintf("stopped-after-%d-calls", s.StopAfter))
	}
	if s.Files > 0 {
		res.Labels = append(res.Labels, "uploads")
	}
	if r.Interrupted {
		res.Labels = append(res.Labels, "interrupted")
	}
	res.NonTrivial = (s.BodyKind == "spill" || s.BodyKind == "over" || s.Files > 0) && (s.StopAfter >= 3 || s.StopAfter < 0)
	return res
}

// c20Leftovers: no file created for the transaction remains unless upload retention says so.
func c20Leftovers(s *C20Scenario, r *C20Result) string {
	keep := s.KeepFiles == "On" || (s.KeepFiles == "RelevantOnly" && s.LogRule)
	for _, f := range r.Leftover {
		isUpload := strings.HasPrefix(f, "upload/")
		if isUpload && keep {
			continue
		}
		return fmt.Sprintf("file %q is left behind after Close (upload retention %s, log rule %v)", f, s.KeepFiles, s.LogRule)
	}
	return ""
}

func genC20Early(t *rapid.T) *C20Scenario {
	s := genC20Scenario(t)
	if rapid.IntRange(0, 3).Draw(t, "full") != 0 {
		s.StopAfter = rapid.IntRange(0, 8).Draw(t, "stopafter")
	}
	return &s
}

func TestC20Early(t *testing.T) {
	runProp(t, "C20E", genC20Early, func(s *C20Scenario) Result { return checkC20Early(s) })
}

// ---- (b) fault enumeration: the scenario runs in a child process under strace ---------------------------------

// TestC20Child is the traced child: it runs one scenario and prints one JSON line.
func TestC20Child(t *testing.T) {
	spec := os.Getenv("VERIF_C20_SCENARIO")
	dir := os.Getenv("VERIF_C20_DIR")
	if spec == "" || dir == "" {
		t.Skip("not a C20 child")
	}
	var s C20Scenario
	if err := json.Unmarshal([]byte(spec), &s); err != nil {
		t.Fatal(err)
	}
	// strace counts "the N-th call" per thread: keep every call of the scenario on the thread this goroutine
	// already runs on (normally the main thread, whose start-up history is the same in every run)
	runtime.LockOSThread()
	r := runScenario(&s, dir)
	b, _ := json.Marshal(r)
	fmt.Printf("C20-RESULT %s\n", b)
}

type injPoint struct {
	Syscall string
	Nth     int
	Path    string
	Sig     string // normalised arguments of the recorded call (lengths, offsets, flags): must match the injected call
}

var reSigStr = regexp.MustCompile(`"(?:[^"\\]|\\.)*"(?:\.\.\.)?`)
var reSigAuditLen = regexp.MustCompile(`(audit[^>]*>, B), \d+$`)
var reSigHex = regexp.MustCompile(`0x[0-9a-f]+`)
var reSigTmp = regexp.MustCompile(`/[^ ,>"]*/(inj\d+|rec)/`)
var reSigCwd = regexp.MustCompile(`AT_FDCWD<[^>]*>`) // strace -y prints the working directory, private to each process
var reSigFD = regexp.MustCompile(`^\d+<`)

// callSig keeps what identifies a call besides its ordinal: flags, lengths and offsets, the path with the random
// parts removed. Buffer contents, addresses, descriptor numbers and the return value are dropped.
func callSig(args string) string {
	if i := strings.LastIndex(args, ") = "); i >= 0 {
		args = args[:i]
	}
	args = reSigCwd.ReplaceAllString(args, "AT_FDCWD")
	args = reSigStr.ReplaceAllString(args, "B")
	args = reSigHex.ReplaceAllString(args, "B")
	args = reSigTmp.ReplaceAllString(args, "/D/")
	args = normNames(args)
	args = reSigFD.ReplaceAllString(args, "FD<")
	// an audit record's length varies from run to run (timestamps, durations, random names inside it)
	args = reSigAuditLen.ReplaceAllString(args, "$1, L")
	return args
}

var reTrace = regexp.MustCompile(`^(\d+)\s+(openat|write|pwrite64|read|pread64|close|unlinkat|mkdirat|renameat|fsync)\((.*)`)

var errC20Hang = errors.New("the scenario did not finish within 120 s (hang)")

func c20Child(s *C20Scenario, dir string, straceArgs []string, traceFile string) (*C20Result, string, error) {
	spec, _ := json.Marshal(s)
	exe, _ := os.Executable()
	args := append([]string{"-f", "-y", "-o", traceFile}, straceArgs...)
	args = append(args, exe, "-test.run", "^TestC20Child$", "-test.count=1")
	// a scenario takes some tens of milliseconds; two minutes without an answer is a hang (e.g. a lock that is never
	// released after the injected fault), whatever the load of the machine
	ctx, cancel := context.WithTimeout(context.Background(), 120*time.Second)
	defer cancel()
	cmd := exec.CommandContext(ctx, "strace", args...)
	cmd.Env = append(os.Environ(), "VERIF_C20_SCENARIO="+string(spec), "VERIF_C20_DIR="+dir, "VERIF_STATS=", "VERIF_FAILDIR=", "GOMAXPROCS=1")
	cmd.WaitDelay = 5 * time.Second
	out, err := cmd.CombinedOutput()
	if ctx.Err() != nil {
		return nil, string(out), errC20Hang
	}
	var r C20Result
	for _, l := range strings.Split(string(out), "\n") {
		if strings.HasPrefix(l, "C20-RESULT ") {
			if jerr := json.Unmarshal([]byte(strings.TrimPrefix(l, "C20-RESULT ")), &r); jerr == nil {
				return &r, string(out), nil
			}
		}
	}
	return nil, string(out), fmt.Errorf("child produced no result (%v)", err)
}

func parseTrace(traceFile, dir string) []injPoint {
	b, _ := os.ReadFile(traceFile)
	counts := map[string]int{} // per (tid, syscall)
	var pts []injPoint
	for _, l := range strings.Split(string(b), "\n") {
		if strings.Contains(l, "C20MARK-TRANSACTION-CLOSED") {
			break // what follows is the harness' own directory listing and the follow-up transaction
		}
		m := reTrace.FindStringSubmatch(l)
		if m == nil {
			continue
		}
		key := m[1] + "/" + m[2]
		counts[key]++
		// only the operations the property names: body spill-over files, upload storage, audit writing
		// (the writability probe NewWAF performs in the temp dir is not one of them)
		inScope := strings.Contains(m[3], dir+"/tmp/body") || strings.Contains(m[3], dir+"/upload/") || strings.Contains(m[3], dir+"/audit/")
		if strings.Contains(m[3], "/checkfsfile") {
			inScope = false // writability probe of SecUploadDir / the temp dir at configuration time
		}
		if (m[2] == "read" || m[2] == "pread64") && strings.HasSuffix(strings.TrimSpace(l), "= 0") {
			inScope = false // a read at end of file carries no data: failing it loses nothing
		}
		if inScope && !strings.Contains(l, "ENOENT") {
			pts = append(pts, injPoint{Syscall: m[2], Nth: counts[key], Path: firstPath(m[3], dir), Sig: callSig(m[3])})
		}
	}
	return pts
}

var reRandName = regexp.MustCompile(`(body|crzmp)\d+`)

// the concurrent audit writer stores each record under <date>/<date-time>/<date-time>-<transaction id>
var reAuditName = regexp.MustCompile(`audit/\d{8}(/\d{8}-\d{4}(/\d{8}-\d{6}-[A-Za-z0-9]+)?)?`)

func normNames(s string) string {
	s = reRandName.ReplaceAllString(s, "${1}N")
	return reAuditName.ReplaceAllStringFunc(s, func(m string) string {
		return "audit" + strings.Repeat("/T", strings.Count(m, "/"))
	})
}

// normPath: path relative to the private directory with the random part of temporary names removed
func normPath(p, dir string) string {
	return normNames(strings.TrimPrefix(p, dir))
}

func firstPath(args, dir string) string {
	i := strings.Index(args, dir)
	if i < 0 {
		return ""
	}
	j := i
	for j < len(args) && args[j] != '"' && args[j] != '>' && args[j] != ',' {
		j++
	}
	return args[i:j]
}

type C20FaultCase struct {
	Scenario C20Scenario `json:"scenario"`
	Only     *injPoint   `json:"only,omitempty"` // replay: inject only this point
}

func errnoFor(sc string) string {
	switch sc {
	case "openat", "mkdirat":
		return "EACCES"
	case "write", "pwrite64":
		return "ENOSPC"
	default:
		return "EIO"
	}
}

func checkC20Faults(c *C20FaultCase) Result {
	res := Result{}
	if _, err := exec.LookPath("strace"); err != nil {
		res.Labels = append(res.Labels, "strace-unavailable")
		return res
	}
	c20Seq++
	base := filepath.Join(privateTmp, fmt.Sprintf("c20f-%d", c20Seq))
	defer os.RemoveAll(base)
	s := &c.Scenario
	// recording run
	recDir := filepath.Join(base, "rec")
	_ = os.MkdirAll(recDir, 0o755)
	traceFile := filepath.Join(base, "trace.txt")
	r0, out, err := c20Child(s, recDir, []string{"-e", "trace=openat,write,pwrite64,read,pread64,close,unlinkat,mkdirat"}, traceFile)
	if err != nil {
		if strings.Contains(out, "ptrace") || strings.Contains(out, "Operation not permitted") {
			res.Labels = append(res.Labels, "strace-unavailable")
			return res
		}
		res.Fail = failf("recording run failed: %v\n%s", err, out)
		return res
	}
	if r0.Panic != "" || r0.NewWAFErr != "" {
		res.Fail = failf("scenario fails without any fault: %+v", *r0)
		return res
	}
	pts := parseTrace(traceFile, recDir)
	if c.Only != nil {
		pts = []injPoint{*c.Only}
	}
	statExtra("injection-points", int64(len(pts)))
	aligned := 0
	for i, p := range pts {
		dir := filepath.Join(base, fmt.Sprintf("inj%d", i))
		_ = os.MkdirAll(dir, 0o755)
		tf := filepath.Join(base, fmt.Sprintf("trace%d.txt", i))
		errno := errnoFor(p.Syscall)
		r, out, err := c20Child(s, dir, []string{"-e", "trace=write," + p.Syscall, "-e", fmt.Sprintf("inject=%s:error=%s:when=%d", p.Syscall, errno, p.Nth)}, tf)
		// alignment: the injected call must be on a path of this run's private directory
		tb, _ := os.ReadFile(tf)
		injLine := ""
		nInjected := 0
		afterMarker := false
		for _, l := range strings.Split(string(tb), "\n") {
			if strings.Contains(l, "C20MARK-TRANSACTION-CLOSED") {
				afterMarker = true
			}
			if strings.Contains(l, "(INJECTED)") {
				if injLine == "" {
					injLine = l
				}
				nInjected++
				if afterMarker {
					nInjected += 100 // the fault hit the follow-up transaction, not the one under test: discard
				}
			}
		}
		// strace counts "when=N" per traced thread: if a second thread also reached its N-th call the
		// run had more than one fault and is discarded like a misaligned one
		if nInjected == 1 {
			im := reTrace.FindStringSubmatch(injLine)
			if im == nil || normPath(firstPath(injLine, dir), dir) != normPath(p.Path, recDir) || (p.Sig != "" && callSig(im[3]) != p.Sig) {
				nInjected = 0 // same ordinal, different call: the call sequence shifted between the two runs
			}
		}
		if nInjected != 1 || !strings.Contains(injLine, dir+"/") {
			if os.Getenv("VERIF_C20_DEBUG") != "" {
				fmt.Fprintf(os.Stderr, "MISALIGNED %s #%d sig=%q path=%q n=%d line=%q\n", p.Syscall, p.Nth, p.Sig, p.Path, nInjected, injLine)
			}
			statExtra("misaligned-injections", 1)
			continue
		}
		aligned++
		statExtra("aligned-injections", 1)
		res.Labels = append(res.Labels, "fault:"+p.Syscall)
		what := fmt.Sprintf("%s #%d failing with %s on %s", p.Syscall, p.Nth, errno, strings.Replace(p.Path, recDir, "<dir>", 1))
		ctx := func() string {
			return fmt.Sprintf("\nscenario %+v\ninjected: %s\nresult: %+v\ninjected line: %s", *s, what, r, injLine)
		}
		if err == errC20Hang {
			fail := &Failure{Msg: fmt.Sprintf("with %s the transaction, Close or the following transaction on the same WAF never returned (120 s): a hang%s", what, ctx()), Site: "hang"}
			recordFaultCase(c, &p, fail)
			res.Fail = fail
			return res
		}
		if err != nil {
			fail := &Failure{Msg: fmt.Sprintf("the child died or printed no result with %s:\n%s%s", what, lastLines(out, 30), ctx()), Site: "child-crash"}
			recordFaultCase(c, &p, fail)
			res.Fail = fail
			return res
		}
		if r.Panic != "" {
			fail := &Failure{Msg: "panic with " + what + ":\n" + r.Panic + ctx(), Site: "panic"}
			recordFaultCase(c, &p, fail)
			res.Fail = fail
			return res
		}
		if r.NewWAFErr != "" {
			continue // the fault hit WAF construction (e.g. opening the audit log): reported as an error, fine
		}
		visible := len(r.Errors) > 0 || r.ErrVars || r.DebugErrors > 0 || r.Interrupted
		// a read fault on a file the code merely probes, or on data it re-reads successfully, may be invisible only
		// if nothing was lost: require visibility for every fault on the body / upload / audit path
		if !visible {
			fail := failf("%s went unreported: no returned error, no error variable, no error-level log entry%s", what, ctx())
			recordFaultCase(c, &p, fail)
			res.Fail = fail
			return res
		}
		// leftovers: the target of a failing unlinkat is the only allowed survivor
		var left []string
		spared := false
		for _, f := range r.Leftover {
			// (temporary names are random per run: match by directory, once)
			if p.Syscall == "unlinkat" && !spared && strings.Contains(injLine, "/"+f) {
				spared = true
				continue
			}
			left = append(left, f)
		}
		r2 := *r
		r2.Leftover = left
		if msg := c20Leftovers(s, &r2); msg != "" {
			fail := failf("with %s: %s%s", what, msg, ctx())
			recordFaultCase(c, &p, fail)
			res.Fail = fail
			return res
		}
		allowedFDs := r.BaseFDs
		if p.Syscall == "close" {
			allowedFDs++ // the injected close never reached the kernel: that descriptor stays open by construction
		}
		if r.OpenFDs > allowedFDs {
			fail := failf("with %s: %d file descriptors open after Close, %d before%s", what, r.OpenFDs, r.BaseFDs, ctx())
			recordFaultCase(c, &p, fail)
			res.Fail = fail
			return res
		}
		if !r.SecondOK {
			fail := failf("with %s: the following transaction on the same WAF does not behave normally: %s%s", what, r.SecondNote, ctx())
			recordFaultCase(c, &p, fail)
			res.Fail = fail
			return res
		}
	}
	res.Labels = append(res.Labels, "body:"+s.BodyKind, "keep:"+s.KeepFiles)
	if s.OnePiece && s.BodyKind == "spill" {
		res.Labels = append(res.Labels, "spill-file-created-for-the-first-write")
	}
	if s.Audit {
		res.Labels = append(res.Labels, "audit:"+s.AuditType)
	}
	res.NonTrivial = aligned > 0
	return res
}

func lastLines(s string, n int) string {
	l := strings.Split(s, "\n")
	if len(l) > n {
		l = l[len(l)-n:]
	}
	return strings.Join(l, "\n")
}

func recordFaultCase(c *C20FaultCase, p *injPoint, f *Failure) {
	cc := *c
	cc.Only = p
	recordFailure("C20F", &cc, f)
}

func genC20Fault(t *rapid.T) *C20FaultCase {
	s := genC20Scenario(t)
	// faults are interesting where files are involved
	if s.BodyKind == "none" || s.BodyKind == "small" {
		s.BodyKind = rapid.SampledFrom([]string{"spill", "multipart"}).Draw(t, "bodykind2")
		if s.BodyKind == "multipart" {
			s.Files = rapid.IntRange(1, 3).Draw(t, "files2")
		}
	}
	return &C20FaultCase{Scenario: s}
}

// c20Core: scenarios enumerated in every run (shard k takes the k-th), so that the classes the property names
// - several uploads removed at Close, body spill-over, both audit writers - never depend on the draw.
var c20Core = []C20Scenario{
	{BodyKind: "multipart", Files: 3, KeepFiles: "Off", Audit: true, AuditType: "Serial", RespBody: true, StopAfter: -1},
	{BodyKind: "multipart", Files: 2, KeepFiles: "RelevantOnly", Audit: true, AuditType: "Concurrent", StopAfter: -1},
	{BodyKind: "spill", KeepFiles: "Off", Audit: false, AuditType: "Serial", Deny: 2, RespBody: true, StopAfter: -1},
	{BodyKind: "spill", OnePiece: true, KeepFiles: "Off", Audit: false, AuditType: "Serial", RespBody: false, StopAfter: -1},
}

func TestC20Faults(t *testing.T) {
	if k, err := strconv.Atoi(os.Getenv("VERIF_SHARD")); err == nil && k >= 0 && k < len(c20Core) && os.Getenv("VERIF_REPLAY") == "" {
		c := &C20FaultCase{Scenario: c20Core[k]}
		res := checkC20Faults(c)
		statEval(1)
		statLabels(append(res.Labels, "core-scenario"))
		if res.Fail != nil {
			if _, err := os.Stat(filepath.Join(os.Getenv("VERIF_FAILDIR"), "C20F.json")); err != nil {
				recordFailure("C20F", c, res.Fail)
			}
			t.Fatalf("%s", res.Fail.Msg)
		}
		if res.NonTrivial {
			key, _ := json.Marshal(c)
			statNonTrivial(key, c)
		}
	}
	rapid.Check(t, func(rt *rapid.T) {
		c := genC20Fault(rt)
		res := checkC20Faults(c)
		statEval(1)
		statLabels(res.Labels)
		if res.Fail != nil {
			if _, err := os.Stat(filepath.Join(os.Getenv("VERIF_FAILDIR"), "C20F.json")); err != nil {
				recordFailure("C20F", c, res.Fail)
			}
			rt.Fatalf("%s", res.Fail.Msg)
		}
		if res.NonTrivial {
			key, _ := json.Marshal(c)
			statNonTrivial(key, c)
		}
	})
}

func init() {
	registerReplay("C20E", func(s *C20Scenario) *Failure { return checkC20Early(s).Fail })
	registerReplay("C20F", func(c *C20FaultCase) *Failure { return checkC20Faults(c).Fail })
}
