// Reflective deep dump of unexported state (DESIGN.md §2.1): used to compare a recycled
// transaction object with a brand-new one (C05) and compiled rules with each other (C16/C17).
package verifharness

import (
	"fmt"
	"reflect"
	"regexp"
	"sort"
	"strings"
	"unsafe"
)

type dumper struct {
	out     []string
	visited map[uintptr]bool
	mask    func(path string) bool
	depth   int
}

func accessible(v reflect.Value) reflect.Value {
	if v.CanInterface() || !v.CanAddr() {
		return v
	}
	return reflect.NewAt(v.Type(), unsafe.Pointer(v.UnsafeAddr())).Elem()
}

func (d *dumper) emit(path, val string) { d.out = append(d.out, path+" = "+val) }

func (d *dumper) dump(v reflect.Value, path string) {
	if d.mask != nil && d.mask(path) {
		return
	}
	if d.depth > 40 {
		d.emit(path, "<too deep>")
		return
	}
	d.depth++
	defer func() { d.depth-- }()
	switch v.Kind() {
	case reflect.Invalid:
		d.emit(path, "<invalid>")
	case reflect.Ptr:
		if v.IsNil() {
			d.emit(path, "nil")
			return
		}
		if v.Type() == reflect.TypeOf((*regexp.Regexp)(nil)) {
			// a compiled regular expression is identified by its source text
			d.emit(path, "regexp("+(*regexp.Regexp)(unsafe.Pointer(v.Pointer())).String()+")")
			return
		}
		p := v.Pointer()
		if d.visited[p] {
			d.emit(path, "<seen>")
			return
		}
		d.visited[p] = true
		d.dump(v.Elem(), path)
	case reflect.Interface:
		if v.IsNil() {
			d.emit(path, "nil")
			return
		}
		e := v.Elem()
		d.dump(e, path+"("+e.Type().String()+")")
	case reflect.Struct:
		t := v.Type()
		if pp := t.PkgPath(); strings.Contains(pp, "aho-corasick") || strings.Contains(pp, "jsonschema") || strings.Contains(pp, "binaryregexp") || strings.Contains(pp, "libinjection") {
			d.emit(path, "<"+t.String()+">") // third-party matcher internals are opaque
			return
		}
		if !v.CanAddr() {
			// make it addressable so unexported fields can be read
			c := reflect.New(t).Elem()
			c.Set(v)
			v = c
		}
		for i := 0; i < v.NumField(); i++ {
			d.dump(accessible(v.Field(i)), path+"."+t.Field(i).Name)
		}
	case reflect.Map:
		if v.IsNil() {
			d.emit(path, "nil-map")
			return
		}
		if v.Len() == 0 {
			d.emit(path, "empty-map")
			return
		}
		type ent struct {
			k string
			v reflect.Value
		}
		var es []ent
		it := v.MapRange()
		for it.Next() {
			es = append(es, ent{fmt.Sprintf("%v", printable(it.Key())), it.Value()})
		}
		sort.Slice(es, func(i, j int) bool { return es[i].k < es[j].k })
		for _, e := range es {
			ev := e.v
			if !ev.CanAddr() {
				c := reflect.New(ev.Type()).Elem()
				c.Set(ev)
				ev = c
			}
			d.dump(ev, path+"["+e.k+"]")
		}
	case reflect.Slice:
		if v.IsNil() || v.Len() == 0 {
			d.emit(path, "empty-slice") // nil and empty are the same logical state
			return
		}
		if v.Type().Elem().Kind() == reflect.Uint8 {
			d.emit(path, fmt.Sprintf("%q", v.Bytes()))
			return
		}
		for i := 0; i < v.Len(); i++ {
			d.dump(accessible(v.Index(i)), fmt.Sprintf("%s[%d]", path, i))
		}
	case reflect.Array:
		for i := 0; i < v.Len(); i++ {
			d.dump(accessible(v.Index(i)), fmt.Sprintf("%s[%d]", path, i))
		}
	case reflect.Func:
		if v.IsNil() {
			d.emit(path, "nil-func")
		} else {
			d.emit(path, "func")
		}
	case reflect.Chan, reflect.UnsafePointer:
		d.emit(path, v.Kind().String())
	case reflect.String:
		d.emit(path, fmt.Sprintf("%q", v.String()))
	default:
		d.emit(path, fmt.Sprintf("%v", printable(v)))
	}
}

func printable(v reflect.Value) any {
	switch v.Kind() {
	case reflect.Bool:
		return v.Bool()
	case reflect.Int, reflect.Int8, reflect.Int16, reflect.Int32, reflect.Int64:
		return v.Int()
	case reflect.Uint, reflect.Uint8, reflect.Uint16, reflect.Uint32, reflect.Uint64, reflect.Uintptr:
		return v.Uint()
	case reflect.Float32, reflect.Float64:
		return v.Float()
	case reflect.String:
		return v.String()
	}
	return v.Kind().String()
}

func deepDump(x any, mask func(path string) bool) []string {
	d := &dumper{visited: map[uintptr]bool{}, mask: mask}
	d.dump(reflect.ValueOf(x), "")
	return d.out
}

func diffDumps(a, b []string) string {
	am := map[string]bool{}
	for _, l := range a {
		am[l] = true
	}
	bm := map[string]bool{}
	for _, l := range b {
		bm[l] = true
	}
	var sb strings.Builder
	n := 0
	for _, l := range a {
		if !bm[l] && n < 12 {
			sb.WriteString("  - " + l + "\n")
			n++
		}
	}
	for _, l := range b {
		if !am[l] && n < 24 {
			sb.WriteString("  + " + l + "\n")
			n++
		}
	}
	return sb.String()
}
