// Native go-fuzz entry points (thorough tier): the same properties, driven by coverage guidance.
package verifharness

import "testing"

func FuzzC07(f *testing.F)  { fuzzProp(f, "C07", genC07, checkC07) }
func FuzzC11(f *testing.F)  { fuzzProp(f, "C11", genC11, checkC11) }
func FuzzC14(f *testing.F)  { fuzzProp(f, "C14", genC14, checkC14) }
func FuzzC14R(f *testing.F) { fuzzProp(f, "C14R", genC14Rule, checkC14Rule) }
func FuzzC15(f *testing.F)  { fuzzProp(f, "C15", genC15, checkC15) }
func FuzzC16(f *testing.F)  { fuzzProp(f, "C16", genC16, checkC16) }
func FuzzC10(f *testing.F)  { fuzzProp(f, "C10", genC10, checkC10) }
func FuzzC03(f *testing.F)  { fuzzProp(f, "C03", genC03, checkC03) }
