// Native go-fuzz entry points (thorough tier): the same properties, driven by coverage guidance.
package verifharness

import "testing"

// warmUp performs the expensive one-time initialisation (scraping the vocabulary, compiling the bundled CRS to
// collect its patterns) before the fuzzing engine starts timing single inputs: a worker that spends its first
// input in there is killed as "hung" on a busy machine, which ends the whole campaign without any finding.
func warmUp() {
	loadVocab()
	c07Setup()
	c12Setup()
	_ = loadCRSPatterns()
}

func FuzzC07(f *testing.F)  { warmUp(); fuzzProp(f, "C07", genC07, checkC07) }
func FuzzC11(f *testing.F)  { warmUp(); fuzzProp(f, "C11", genC11, checkC11) }
func FuzzC14(f *testing.F)  { warmUp(); fuzzProp(f, "C14", genC14, checkC14) }
func FuzzC14R(f *testing.F) { warmUp(); fuzzProp(f, "C14R", genC14Rule, checkC14Rule) }
func FuzzC15(f *testing.F)  { warmUp(); fuzzProp(f, "C15", genC15, checkC15) }
func FuzzC16(f *testing.F)  { warmUp(); fuzzProp(f, "C16", genC16, checkC16) }
func FuzzC10(f *testing.F)  { warmUp(); fuzzProp(f, "C10", genC10, checkC10) }
func FuzzC03(f *testing.F)  { warmUp(); fuzzProp(f, "C03", genC03, checkC03) }
