// C03 — Every piece of request data is visible to rules, decoded once, never dropped.
package verifharness

import (
	"encoding/json"
	"fmt"
	"sort"
	"strings"
	"testing"

	"github.com/corazawaf/coraza/v3/types"
	"pgregory.net/rapid"
)

type C03File struct {
	Field   string `json:"field"`
	Name    string `json:"filename"`
	Content []byte `json:"content"`
}

type C03Case struct {
	Carrier string `json:"carrier"` // query headers cookies urlencoded multipart json xml
	Pairs   []KV   `json:"pairs"`
	// Enc holds, per byte of the encoded text, the encoder's choice (0 raw-if-allowed, 1 %XX upper, 2 %xx lower, 3 '+' for blank)
	EncSeed []byte    `json:"enc_seed,omitempty"`
	Files   []C03File `json:"files,omitempty"`
	JSONDoc string    `json:"json_doc,omitempty"` // for json: the document text (built by the generator together with Pairs = expected leaves)
	// JSONDepth: SecRequestBodyJsonDepthLimit (0: the default); documents nested deeper must be flagged, not cut silently
	JSONDepth int      `json:"json_depth_limit,omitempty"`
	XMLDoc    string   `json:"xml_doc,omitempty"`
	XMLAttrs  []string `json:"xml_attrs,omitempty"`
	XMLTexts  []string `json:"xml_texts,omitempty"`
	Boundary  string   `json:"boundary,omitempty"`
	// settings
	ArgLimit   int    `json:"arg_limit"`
	BodyLimit  int    `json:"body_limit"`
	LimitAct   string `json:"limit_action"`
	Break      string `json:"break,omitempty"` // "", truncate:<n>, dropdelim
	SplitCooks bool   `json:"split_cookie_headers,omitempty"`
	// SplitAtLimit: a body above the limit is written in two pieces, the first ending exactly at the limit
	SplitAtLimit bool `json:"split_at_limit,omitempty"`
	// how the media type of a urlencoded / multipart body is written: parameters after it, letter case
	CTParam string `json:"content_type_param,omitempty"`
	CTUpper bool   `json:"content_type_upper,omitempty"`
}

var c03Names = []string{"a", "A", "b", "Ab", "aB", "", "a.b", "x-y", "foo", "Foo", "a", "b", "a[0]", "é", "n m", "p%q", "k=v", "q&r", "s+t"}
var c03Values = []string{"", "x", "X", "abc", " lead", "trail ", "a b", "a+b", "a%41c", "%", "%25", "%2541", "100%", "a&b=c", "\xff\xfe", "é", "ab\x00c", "line1\nline2", "quote\"s", "semi;colon", "<tag>", "{\"j\":1}", "1", "007"}

func c03Pairs(t *rapid.T, names, values []string, min, max int) []KV {
	n := rapid.IntRange(min, max).Draw(t, "npairs")
	var out []KV
	for i := 0; i < n; i++ {
		out = append(out, KV{rapid.SampledFrom(names).Draw(t, "name"), rapid.SampledFrom(values).Draw(t, "value")})
	}
	return out
}

// encodeComponent percent-encodes one name or value with generated per-byte choices.
// mustEncode lists the bytes that have a meaning in the carrying syntax.
func encodeComponent(s string, seed []byte, pos *int, query bool) string {
	var sb strings.Builder
	for i := 0; i < len(s); i++ {
		c := s[i]
		choice := byte(0)
		if len(seed) > 0 {
			choice = seed[*pos%len(seed)] % 4
		}
		*pos++
		special := c == '&' || c == '=' || c == '%' || c == '+' || (query && (c == '#' || c <= 0x20 || c >= 0x7f))
		switch {
		case c == ' ' && choice == 3:
			sb.WriteByte('+')
		case special || choice == 1:
			fmt.Fprintf(&sb, "%%%02X", c)
		case choice == 2:
			fmt.Fprintf(&sb, "%%%02x", c)
		default:
			sb.WriteByte(c)
		}
	}
	return sb.String()
}

func (c *C03Case) encodeForm(query bool) string {
	pos := 0
	var parts []string
	for _, kv := range c.Pairs {
		parts = append(parts, encodeComponent(kv.K, c.EncSeed, &pos, query)+"="+encodeComponent(kv.V, c.EncSeed, &pos, query))
	}
	return strings.Join(parts, "&")
}

func (c *C03Case) multipartBody() string {
	var sb strings.Builder
	for _, kv := range c.Pairs {
		fmt.Fprintf(&sb, "--%s\r\nContent-Disposition: form-data; name=\"%s\"\r\n\r\n%s\r\n", c.Boundary, kv.K, kv.V)
	}
	for _, f := range c.Files {
		fmt.Fprintf(&sb, "--%s\r\nContent-Disposition: form-data; name=\"%s\"; filename=\"%s\"\r\nContent-Type: application/octet-stream\r\n\r\n%s\r\n", c.Boundary, f.Field, f.Name, f.Content)
	}
	fmt.Fprintf(&sb, "--%s--\r\n", c.Boundary)
	return sb.String()
}

// ---- JSON documents built together with their expected flattening ---------------------------------

type jsonNode struct {
	kind string // obj arr str num bool null
	keys []string
	kids []*jsonNode
	str  string
	raw  string
}

func genJSONNode(t *rapid.T, depth int) *jsonNode {
	max := 5
	if depth >= 2 {
		max = 3
	}
	switch rapid.IntRange(0, max).Draw(t, "jkind") {
	case 0:
		return &jsonNode{kind: "str", str: rapid.SampledFrom([]string{"", "x", "abc", "a b", "é", "q\"uote", "back\\slash", "line\nbreak", "%41", "<s>"}).Draw(t, "jstr")}
	case 1:
		return &jsonNode{kind: "num", raw: rapid.SampledFrom([]string{"0", "1", "-7", "3.5", "1e3", "123456"}).Draw(t, "jnum")}
	case 2:
		return &jsonNode{kind: "bool", raw: rapid.SampledFrom([]string{"true", "false"}).Draw(t, "jbool")}
	case 3:
		return &jsonNode{kind: "null", raw: "null"}
	case 4:
		n := rapid.IntRange(0, 3).Draw(t, "jobjn")
		o := &jsonNode{kind: "obj"}
		for i := 0; i < n; i++ {
			o.keys = append(o.keys, rapid.SampledFrom([]string{"a", "b", "A", "a.b", "0", "k", ""}).Draw(t, "jkey"))
			o.kids = append(o.kids, genJSONNode(t, depth+1))
		}
		return o
	default:
		n := rapid.IntRange(0, 3).Draw(t, "jarrn")
		a := &jsonNode{kind: "arr"}
		for i := 0; i < n; i++ {
			a.kids = append(a.kids, genJSONNode(t, depth+1))
		}
		return a
	}
}

func (n *jsonNode) text() string {
	switch n.kind {
	case "str":
		b, _ := json.Marshal(n.str)
		return string(b)
	case "obj":
		var parts []string
		for i, k := range n.keys {
			kb, _ := json.Marshal(k)
			parts = append(parts, string(kb)+":"+n.kids[i].text())
		}
		return "{" + strings.Join(parts, ",") + "}"
	case "arr":
		var parts []string
		for _, k := range n.kids {
			parts = append(parts, k.text())
		}
		return "[" + strings.Join(parts, ",") + "]"
	}
	return n.raw
}

// flatten: documented flattening (json.<path>; arrays also expose their length under the array's own path)
func (n *jsonNode) flatten(path string, out *[]KV) {
	switch n.kind {
	case "obj":
		for i, k := range n.keys {
			n.kids[i].flatten(path+"."+k, out)
		}
	case "arr":
		for i, k := range n.kids {
			k.flatten(fmt.Sprintf("%s.%d", path, i), out)
		}
		if len(n.kids) > 0 {
			*out = append(*out, KV{path, fmt.Sprint(len(n.kids))})
		}
	case "str":
		*out = append(*out, KV{path, n.str})
	case "null":
		*out = append(*out, KV{path, ""})
	default:
		*out = append(*out, KV{path, n.raw})
	}
}

func genC03(t *rapid.T) *C03Case {
	c := &C03Case{ArgLimit: 1000, BodyLimit: 100000, LimitAct: "Reject"}
	c.Carrier = rapid.SampledFrom([]string{"query", "query", "headers", "cookies", "urlencoded", "urlencoded", "multipart", "json", "xml"}).Draw(t, "carrier")
	c.EncSeed = rapid.SliceOfN(rapid.Byte(), 1, 16).Draw(t, "encseed")
	switch c.Carrier {
	case "query", "urlencoded":
		if c.Carrier == "urlencoded" && rapid.Bool().Draw(t, "ctvariant") {
			// the same media type as user agents write it
			c.CTParam = rapid.SampledFrom([]string{"; charset=UTF-8", ";charset=utf-8", " ; charset=ISO-8859-1", ""}).Draw(t, "ctparam")
			c.CTUpper = rapid.IntRange(0, 3).Draw(t, "ctupper") == 0
		}
		c.Pairs = c03Pairs(t, c03Names, c03Values, 0, 8)
		if rapid.IntRange(0, 5).Draw(t, "arglimit") == 0 {
			c.ArgLimit = rapid.IntRange(1, 3).Draw(t, "limit")
		}
	case "headers":
		hn := []string{"X-A", "x-a", "H", "h", "Accept", "X_U", "Weird Name", "é"}
		c.Pairs = c03Pairs(t, hn, c03Values, 0, 6)
	case "cookies":
		cn := []string{"a", "A", "sid", "Foo", "foo", "a.b", "x-y"}
		cv := []string{"", "x", "abc", "a=b", "%41", "a+b", "\xff", "sp ace", "q\"q", "é"}
		c.Pairs = c03Pairs(t, cn, cv, 1, 5)
		c.SplitCooks = rapid.Bool().Draw(t, "splitcookies")
	case "multipart":
		mn := []string{"a", "A", "b", "Ab", "a.b", "x-y", "f", "é", "n m"}
		mv := []string{"", "x", "abc", "a b", "a%41c", "a+b", "a&b=c", "\xff\xfe", "é", "two\r\nlines", "--not-a-boundary", "trail "}
		c.Pairs = c03Pairs(t, mn, mv, 0, 5)
		c.Boundary = rapid.SampledFrom([]string{"bb", "----WebKitFormBoundaryX", "b0undary"}).Draw(t, "boundary")
		nf := rapid.IntRange(0, 3).Draw(t, "nfiles")
		for i := 0; i < nf; i++ {
			c.Files = append(c.Files, C03File{Field: rapid.SampledFrom([]string{"f", "up", "a"}).Draw(t, "ffield"),
				Name:    rapid.SampledFrom([]string{"x.txt", "a.php", "X.TXT", "weird name.bin", "é.txt", "x.txt"}).Draw(t, "fname"),
				Content: []byte(rapid.SampledFrom([]string{"", "file", "\x00\x01\xff", "line\r\nline", strings.Repeat("z", 100)}).Draw(t, "fcontent"))})
		}
	case "json":
		root := &jsonNode{kind: "obj"}
		n := rapid.IntRange(0, 4).Draw(t, "jroot")
		for i := 0; i < n; i++ {
			root.keys = append(root.keys, rapid.SampledFrom([]string{"a", "b", "A", "a.b", "list", "o", "0"}).Draw(t, "jrkey"))
			root.kids = append(root.kids, genJSONNode(t, 0))
		}
		if rapid.IntRange(0, 4).Draw(t, "jarrroot") == 0 {
			root = &jsonNode{kind: "arr", kids: root.kids}
		}
		c.JSONDoc = root.text()
		root.flatten("json", &c.Pairs)
		c.JSONDepth = rapid.SampledFrom([]int{0, 0, 1, 2, 3, 4}).Draw(t, "jdepthlimit")
	case "xml":
		var sb strings.Builder
		sb.WriteString("<root")
		na := rapid.IntRange(0, 3).Draw(t, "xattrs")
		esc := strings.NewReplacer("&", "&amp;", "<", "&lt;", ">", "&gt;", "\"", "&quot;")
		for i := 0; i < na; i++ {
			v := rapid.SampledFrom([]string{"", "x", "a b", "a&b", "<v>", "é", "q\"q", "1"}).Draw(t, "xattr")
			fmt.Fprintf(&sb, " a%d=\"%s\"", i, esc.Replace(v))
			c.XMLAttrs = append(c.XMLAttrs, v)
		}
		sb.WriteString(">")
		ne := rapid.IntRange(0, 3).Draw(t, "xelems")
		for i := 0; i < ne; i++ {
			v := rapid.SampledFrom([]string{"x", "a b", "a&b", "<v>", "é", "1", "text with <![CDATA[cdata]]>"}).Draw(t, "xtext")
			if strings.Contains(v, "CDATA") {
				fmt.Fprintf(&sb, "<e%d>%s</e%d>", i, v, i)
				c.XMLTexts = append(c.XMLTexts, "text with", "cdata")
				continue
			}
			fmt.Fprintf(&sb, "<e%d>%s</e%d>", i, esc.Replace(v), i)
			c.XMLTexts = append(c.XMLTexts, v)
		}
		sb.WriteString("</root>")
		c.XMLDoc = sb.String()
	}
	if c.Carrier != "query" && c.Carrier != "headers" && c.Carrier != "cookies" {
		switch rapid.IntRange(0, 7).Draw(t, "limitkind") {
		case 0:
			c.BodyLimit = rapid.IntRange(1, 60).Draw(t, "bodylimit")
			c.LimitAct = rapid.SampledFrom([]string{"Reject", "ProcessPartial"}).Draw(t, "limitact")
			c.SplitAtLimit = rapid.Bool().Draw(t, "splitatlimit")
		}
		if c.Carrier != "urlencoded" && rapid.IntRange(0, 5).Draw(t, "break") == 0 {
			c.Break = rapid.SampledFrom([]string{"truncate", "dropdelim"}).Draw(t, "breakkind")
			if c.Carrier == "xml" && rapid.Bool().Draw(t, "strayend") {
				c.Break = "strayend"
			}
		}
	}
	return c
}

func (c *C03Case) body() (ctype string, body string) {
	switch c.Carrier {
	case "urlencoded":
		mt := "application/x-www-form-urlencoded"
		if c.CTUpper {
			mt = "Application/X-WWW-Form-UrlEncoded"
		}
		return mt + c.CTParam, c.encodeForm(false)
	case "multipart":
		return "multipart/form-data; boundary=" + c.Boundary, c.multipartBody()
	case "json":
		return "application/json", c.JSONDoc
	case "xml":
		return "text/xml", c.XMLDoc
	}
	return "", ""
}

func breakBody(kind, body string) string {
	if len(body) < 4 {
		return body
	}
	switch kind {
	case "truncate":
		return body[:len(body)*2/3]
	case "strayend":
		// a closing tag that closes nothing, with more content behind it
		return body + "</x><late>payload</late>"
	case "dropdelim":
		for _, d := range []string{"\r\n\r\n", "}", "]", "</", "\"", "--"} {
			if i := strings.LastIndex(body, d); i > 0 {
				return body[:i] + body[i+len(d):]
			}
		}
	}
	return body
}

type c03Obs struct {
	vars        map[string][]KV // variable -> (key,value) multiset
	errFlags    []string
	interrupted *Intr
	phase2Ran   bool
}

var c03ProbeVars = []string{"ARGS_GET", "ARGS_POST", "ARGS", "ARGS_NAMES", "ARGS_GET_NAMES", "ARGS_POST_NAMES", "REQUEST_HEADERS", "REQUEST_HEADERS_NAMES",
	"REQUEST_COOKIES", "REQUEST_COOKIES_NAMES", "FILES", "FILES_NAMES", "FILES_SIZES", "REQUEST_BODY", "QUERY_STRING", "REQUEST_URI", "REQUEST_URI_RAW", "XML"}
var c03ErrVars = []string{"REQBODY_ERROR", "REQBODY_PROCESSOR_ERROR", "URLENCODED_ERROR", "MULTIPART_STRICT_ERROR", "INBOUND_DATA_ERROR"}

func (c *C03Case) conf() string {
	var sb strings.Builder
	fmt.Fprintf(&sb, "SecRuleEngine On\nSecRequestBodyAccess On\nSecArgumentsLimit %d\nSecRequestBodyLimit %d\nSecRequestBodyLimitAction %s\nSecUploadDir %s\n", c.ArgLimit, c.BodyLimit, c.LimitAct, tmpPlaceholder)
	switch c.Carrier {
	case "json":
		sb.WriteString("SecAction \"id:90,phase:1,pass,ctl:requestBodyProcessor=JSON\"\n")
		if c.JSONDepth > 0 {
			fmt.Fprintf(&sb, "SecRequestBodyJsonDepthLimit %d\n", c.JSONDepth)
		}
	case "xml":
		sb.WriteString("SecAction \"id:90,phase:1,pass,ctl:requestBodyProcessor=XML\"\n")
	}
	for i, v := range c03ProbeVars {
		fmt.Fprintf(&sb, "SecRule %s \"@unconditionalMatch\" \"id:%d,phase:2,pass\"\n", v, 100+i)
	}
	for i, v := range c03ErrVars {
		op := "@eq 1"
		if v == "URLENCODED_ERROR" {
			op = "!@streq 0"
		}
		fmt.Fprintf(&sb, "SecRule %s \"%s\" \"id:%d,phase:2,pass\"\n", v, op, 200+i)
	}
	sb.WriteString("SecAction \"id:300,phase:2,pass\"\n")
	return expandTmp(sb.String())
}

func (c *C03Case) run() (*c03Obs, string, *Failure) {
	o := &c03Obs{vars: map[string][]KV{}}
	w, err := newWAF(c.conf())
	if err != nil {
		return nil, "", failf("configuration rejected: %v\n%s", err, c.conf())
	}
	defer closeWAF(w)
	uri := "/p"
	if c.Carrier == "query" {
		uri += "?" + c.encodeForm(true)
	}
	ctype, body := c.body()
	if c.Break != "" {
		body = breakBody(c.Break, body)
	}
	desc := fmt.Sprintf("uri=%q content-type=%q body=%q", uri, ctype, body)
	f := guard("transaction", func() {
		tx := w.NewTransaction()
		defer func() { _ = tx.Close() }()
		tx.ProcessConnection("10.0.0.1", 1, "10.0.0.2", 80)
		tx.ProcessURI(uri, "POST", "HTTP/1.1")
		tx.AddRequestHeader("Host", "example")
		if c.Carrier == "headers" {
			for _, kv := range c.Pairs {
				tx.AddRequestHeader(kv.K, kv.V)
			}
		}
		if c.Carrier == "cookies" {
			if c.SplitCooks {
				for _, kv := range c.Pairs {
					tx.AddRequestHeader("Cookie", kv.K+"="+kv.V)
				}
			} else {
				var parts []string
				for _, kv := range c.Pairs {
					parts = append(parts, kv.K+"="+kv.V)
				}
				tx.AddRequestHeader("Cookie", strings.Join(parts, "; "))
			}
		}
		if ctype != "" {
			tx.AddRequestHeader("Content-Type", ctype)
		}
		var it *types.Interruption
		if it = tx.ProcessRequestHeaders(); it == nil {
			if body != "" {
				// a body larger than the limit arrives in two pieces, the first one ending exactly at the limit
				// (as it does when a connector forwards what it has read so far)
				if c.BodyLimit > 0 && c.BodyLimit < len(body) && c.SplitAtLimit {
					it, _, _ = tx.WriteRequestBody([]byte(body[:c.BodyLimit]))
					if it == nil {
						it, _, _ = tx.WriteRequestBody([]byte(body[c.BodyLimit:]))
					}
				} else {
					it, _, _ = tx.WriteRequestBody([]byte(body))
				}
			}
			if it == nil {
				it, _ = tx.ProcessRequestBody()
			}
		}
		o.interrupted = intrOf(it)
		for _, mr := range tx.MatchedRules() {
			id := mr.Rule().ID()
			switch {
			case id >= 100 && id < 100+len(c03ProbeVars):
				v := c03ProbeVars[id-100]
				for _, md := range mr.MatchedDatas() {
					o.vars[v] = append(o.vars[v], KV{md.Key(), md.Value()})
				}
			case id >= 200 && id < 200+len(c03ErrVars):
				o.errFlags = append(o.errFlags, c03ErrVars[id-200])
			case id == 300:
				o.phase2Ran = true
			}
		}
		tx.ProcessLogging()
	})
	return o, desc, f
}

func sortedKVs(kvs []KV) []KV {
	out := append([]KV(nil), kvs...)
	sort.Slice(out, func(i, j int) bool {
		if out[i].K != out[j].K {
			return out[i].K < out[j].K
		}
		return out[i].V < out[j].V
	})
	return out
}

func kvMultisetEq(a, b []KV) bool {
	return fmt.Sprintf("%q", sortedKVs(a)) == fmt.Sprintf("%q", sortedKVs(b))
}

func checkC03(c *C03Case) Result {
	res := Result{}
	o, desc, f := c.run()
	if f != nil {
		res.Fail = f
		return res
	}
	excused := len(o.errFlags) > 0 || o.interrupted != nil
	ctx := fmt.Sprintf("\ncarrier=%s pairs=%q files=%v arglimit=%d bodylimit=%d/%s break=%q\n%s\nerror flags=%v interruption=%v", c.Carrier, c.Pairs, c.Files, c.ArgLimit, c.BodyLimit, c.LimitAct, c.Break, desc, o.errFlags, o.interrupted)
	expect := func(variable string, want []KV) bool {
		got := o.vars[variable]
		if kvMultisetEq(got, want) {
			return true
		}
		if excused {
			return true
		}
		res.Fail = failf("%s shows %q, the data handed to the transaction is %q and no error variable or interruption says otherwise%s", variable, sortedKVs(got), sortedKVs(want), ctx)
		return false
	}
	names := func(kvs []KV) []KV {
		var out []KV
		for _, kv := range kvs {
			out = append(out, KV{kv.K, kv.K})
		}
		return out
	}
	_, body := c.body()
	broken := c.Break != ""
	overLimit := false
	switch c.Carrier {
	case "query":
		distinct := map[string]bool{}
		for _, kv := range c.Pairs {
			distinct[strings.ToLower(kv.K)] = true
		}
		overLimit = len(distinct) >= c.ArgLimit
		if overLimit && known("C03-arguments-limit-silent") {
			statExcluded("C03-arguments-limit-silent")
			res.Labels = append(res.Labels, "args-over-limit(excluded)")
			return res
		}
		// empty segments ("&&") carry no pair; a pair with an empty name and value is a segment "="
		if !expect("ARGS_GET", c.Pairs) || !expect("ARGS", c.Pairs) || !expect("ARGS_GET_NAMES", names(c.Pairs)) || !expect("ARGS_NAMES", names(c.Pairs)) {
			return res
		}
		raw := c.encodeForm(true)
		if !expect("QUERY_STRING", []KV{{"", raw}}) || !expect("REQUEST_URI", []KV{{"", "/p?" + raw}}) || !expect("REQUEST_URI_RAW", []KV{{"", "/p?" + raw}}) {
			return res
		}
	case "headers":
		want := append([]KV{{"Host", "example"}}, c.Pairs...)
		var w2 []KV
		for _, kv := range want {
			if kv.K != "" {
				w2 = append(w2, kv)
			}
		}
		if !expect("REQUEST_HEADERS", w2) || !expect("REQUEST_HEADERS_NAMES", names(w2)) {
			return res
		}
	case "cookies":
		if !expect("REQUEST_COOKIES", c.Pairs) || !expect("REQUEST_COOKIES_NAMES", names(c.Pairs)) {
			return res
		}
	case "urlencoded":
		if len(body) > 0 {
			if !expect("ARGS_POST", c.Pairs) || !expect("ARGS", c.Pairs) || !expect("ARGS_POST_NAMES", names(c.Pairs)) || !expect("REQUEST_BODY", []KV{{"", body}}) {
				return res
			}
		}
	case "multipart":
		if !broken {
			var fn, ff, fs []KV
			for _, f := range c.Files {
				fn = append(fn, KV{"", f.Name})
				ff = append(ff, KV{"", f.Field})
			}
			// FILES_SIZES: the size of every uploaded file, under its file name (two uploads may share a name)
			for _, f := range c.Files {
				fs = append(fs, KV{f.Name, fmt.Sprint(len(f.Content))})
			}
			if !expect("ARGS_POST", c.Pairs) || !expect("FILES", fn) || !expect("FILES_NAMES", ff) || !expect("FILES_SIZES", fs) {
				return res
			}
			names := map[string]bool{}
			for _, f := range c.Files {
				if names[strings.ToLower(f.Name)] {
					res.Labels = append(res.Labels, "uploads-sharing-a-file-name")
				}
				names[strings.ToLower(f.Name)] = true
			}
		}
	case "json":
		if !broken {
			// known finding: duplicate / colliding flattened keys keep only one value
			keys := map[string]int{}
			for _, kv := range c.Pairs {
				keys[strings.ToLower(kv.K)]++
			}
			collide := false
			for _, n := range keys {
				if n > 1 {
					collide = true
				}
			}
			if collide && known("C03-json-colliding-keys") {
				statExcluded("C03-json-colliding-keys")
				res.Labels = append(res.Labels, "json-colliding-keys(excluded)")
				return res
			}
			if collide {
				res.Labels = append(res.Labels, "json-colliding-keys")
			}
			if c.JSONDepth > 0 {
				if excused {
					res.Labels = append(res.Labels, "json-depth-limit-flagged")
				} else {
					res.Labels = append(res.Labels, "json-within-depth-limit")
				}
			}
			if !expect("ARGS_POST", c.Pairs) {
				return res
			}
		}
	case "xml":
		if !broken {
			var attrs, texts []KV
			for _, a := range c.XMLAttrs {
				attrs = append(attrs, KV{"//@*", a})
			}
			for _, x := range c.XMLTexts {
				texts = append(texts, KV{"/*", strings.TrimSpace(x)})
			}
			if !expect("XML", append(attrs, texts...)) {
				return res
			}
		}
	}
	// unparseable input: the error clause is the whole oracle
	if broken && !excused {
		// a broken document may still be a valid document of the same syntax (e.g. a dropped quote inside a string);
		// only flag what the reference parsers reject as well
		if c.Carrier == "json" && !json.Valid([]byte(breakBody(c.Break, body))) {
			res.Fail = failf("a JSON body that does not parse was processed without any error variable or interruption%s", ctx)
			return res
		}
		if c.Carrier == "xml" && c.Break == "strayend" {
			res.Fail = failf("an XML body with a stray closing tag and content behind it was processed without any error variable or interruption%s", ctx)
			return res
		}
		if c.Carrier == "multipart" && !strings.HasSuffix(breakBody(c.Break, body), "--"+c.Boundary+"--\r\n") {
			if known("C03-truncated-multipart-silent") {
				statExcluded("C03-truncated-multipart-silent")
				res.Labels = append(res.Labels, "truncated-multipart(excluded)")
				return res
			}
			res.Fail = failf("a multipart body without its closing boundary was processed without any error variable or interruption%s", ctx)
			return res
		}
	}
	// labels
	res.Labels = append(res.Labels, "carrier:"+c.Carrier)
	if c.CTParam != "" {
		res.Labels = append(res.Labels, "content-type-with-parameter")
	}
	if c.SplitAtLimit && c.BodyLimit > 0 {
		res.Labels = append(res.Labels, "body-split-at-limit")
	}
	dup := hasDupOrCaseVariant(c.Pairs)
	if dup {
		res.Labels = append(res.Labels, "dup-or-case-variant-name")
	}
	empties := false
	delim := false
	for _, kv := range c.Pairs {
		if kv.K == "" || kv.V == "" {
			empties = true
		}
		if strings.ContainsAny(kv.K+kv.V, "&=%+;\"\r\n") {
			delim = true
		}
	}
	if empties {
		res.Labels = append(res.Labels, "empty-name-or-value")
	}
	if delim {
		res.Labels = append(res.Labels, "delimiter-byte-in-data")
	}
	if c.BodyLimit <= len(body) && body != "" {
		res.Labels = append(res.Labels, "body-limit-below-size:"+c.LimitAct)
	}
	if broken {
		res.Labels = append(res.Labels, "unparseable:"+c.Carrier)
		if c.Break == "strayend" {
			res.Labels = append(res.Labels, "xml-stray-closing-tag")
		}
	}
	if excused {
		res.Labels = append(res.Labels, "error-flagged")
	}
	if len(c.Files) > 0 {
		res.Labels = append(res.Labels, "multipart-files")
	}
	res.NonTrivial = (len(c.Pairs) >= 2 && dup) || empties || delim || c.BodyLimit <= len(body) || broken
	return res
}

func TestC03(t *testing.T) {
	runProp(t, "C03", genC03, checkC03)
}

func init() {
	registerReplay("C03", func(c *C03Case) *Failure { return checkC03(c).Fail })
}
