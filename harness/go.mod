module github.com/corazawaf/coraza/v3/verifharness

go 1.25.0

require (
	github.com/corazawaf/coraza-coreruleset v0.0.0-20240226094324-415b1017abdc
	github.com/corazawaf/coraza/v3 v3.0.0
	pgregory.net/rapid v1.3.0
	rsc.io/binaryregexp v0.2.0
)

require (
	github.com/corazawaf/libinjection-go v0.3.2 // indirect
	github.com/goccy/go-json v0.10.5 // indirect
	github.com/goccy/go-yaml v1.18.0 // indirect
	github.com/gotnospirit/makeplural v0.0.0-20180622080156-a5f48d94d976 // indirect
	github.com/gotnospirit/messageformat v0.0.0-20221001023931-dfe49f1eb092 // indirect
	github.com/kaptinlin/go-i18n v0.1.4 // indirect
	github.com/kaptinlin/jsonschema v0.4.6 // indirect
	github.com/petar-dambovaliev/aho-corasick v0.0.0-20250424160509-463d218d4745 // indirect
	github.com/tidwall/gjson v1.18.0 // indirect
	github.com/tidwall/match v1.1.1 // indirect
	github.com/tidwall/pretty v1.2.1 // indirect
	github.com/valllabh/ocsf-schema-golang v1.0.3 // indirect
	golang.org/x/net v0.56.0 // indirect
	golang.org/x/sync v0.21.0 // indirect
	golang.org/x/text v0.39.0 // indirect
	google.golang.org/protobuf v1.36.11 // indirect
)

replace github.com/corazawaf/coraza/v3 => /repo
