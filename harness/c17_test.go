// C17 — Rule exclusions and updates equal the rewritten rule set.
package verifharness

import (
	"fmt"
	"strconv"
	"strings"
	"testing"

	"pgregory.net/rapid"
)

type C17Dir struct {
	Kind    string   `json:"kind"`          // removeById removeByTag removeByMsg updTargetById updTargetByTag updActionById ctl
	IDs     []string `json:"ids,omitempty"` // "803" or "802-804"
	Tag     string   `json:"tag,omitempty"`
	Msg     string   `json:"msg,omitempty"`
	Targets []Target `json:"targets,omitempty"` // for target updates and ctl:ruleRemoveTarget*
	Actions []string `json:"actions,omitempty"` // for action updates
	// ctl
	CtlOpt   string `json:"ctl_opt,omitempty"` // ruleRemoveById ruleRemoveByTag ruleRemoveByMsg ruleRemoveTargetById ruleRemoveTargetByTag ruleRemoveTargetByMsg
	CtlPhase int    `json:"ctl_phase,omitempty"`
	CtlPos   int    `json:"ctl_pos,omitempty"`  // position in the item list
	CtlCond  int    `json:"ctl_cond,omitempty"` // 0: unconditional SecAction, k: conditional on ARGS_GET:ck
}

type C17Case struct {
	Base []*Rule `json:"base"`
	Dir  C17Dir  `json:"directive"`
	Req  Req     `json:"request"`
}

var c17Tags = []string{"t1", "t2", "t3"}
var c17Msgs = []string{"m1", "m2", "m3"}
var c17Names = []string{"a", "b", "ab", "x", "c1", "c2", "Ab", "SessionToken"}

func genC17Rule(t *rapid.T, r *Rule) {
	nt := rapid.IntRange(1, 2).Draw(t, "nt")
	for i := 0; i < nt; i++ {
		tg := Target{Var: rapid.SampledFrom([]string{"ARGS_GET", "ARGS", "REQUEST_HEADERS", "ARGS_GET_NAMES", "ARGS_NAMES"}).Draw(t, "var")}
		switch rapid.IntRange(0, 3).Draw(t, "sel") {
		case 0:
			if tg.Var == "REQUEST_HEADERS" {
				tg.Key = rapid.SampledFrom([]string{"h1", "h2"}).Draw(t, "hkey")
			} else {
				tg.Key = rapid.SampledFrom(c17Names).Draw(t, "key")
			}
		case 1:
			tg.Rx, tg.Key = true, rapid.SampledFrom([]string{"^a", "b$", "^c", "."}).Draw(t, "rxkey")
		}
		r.Targets = append(r.Targets, tg)
	}
	if rapid.IntRange(0, 3).Draw(t, "excl") == 0 {
		r.Targets = append(r.Targets, Target{Var: r.Targets[0].Var, Neg: true, Key: rapid.SampledFrom(c17Names).Draw(t, "xkey")})
	}
	r.Op = rapid.SampledFrom([]string{"contains", "rx", "streq", "unconditionalMatch"}).Draw(t, "op")
	switch r.Op {
	case "rx":
		r.Arg = rapid.SampledFrom([]string{"^v", "1", "[a-c]", "."}).Draw(t, "rx")
	case "unconditionalMatch":
	default:
		r.Arg = rapid.SampledFrom([]string{"v", "1", "a", "v1"}).Draw(t, "arg")
	}
	if rapid.IntRange(0, 3).Draw(t, "trans") == 0 {
		r.Trans = []string{rapid.SampledFrom([]string{"lowercase", "uppercase", "length"}).Draw(t, "t")}
	}
}

func genC17(t *rapid.T) *C17Case {
	c := &C17Case{}
	n := rapid.IntRange(3, 7).Draw(t, "nrules")
	for i := 0; i < n; i++ {
		r := &Rule{ID: 801 + i, Phase: rapid.IntRange(1, 3).Draw(t, "phase"), Disr: rapid.SampledFrom([]string{"pass", "pass", "pass", "deny"}).Draw(t, "disr")}
		genC17Rule(t, r)
		if rapid.Bool().Draw(t, "hastag") {
			r.Acts = append(r.Acts, "tag:'"+rapid.SampledFrom(c17Tags).Draw(t, "tag")+"'")
		}
		if rapid.Bool().Draw(t, "hastag2") {
			r.Acts = append(r.Acts, "tag:'"+rapid.SampledFrom(c17Tags).Draw(t, "tag2")+"'")
		}
		if rapid.Bool().Draw(t, "hasmsg") {
			r.Acts = append(r.Acts, "msg:'"+rapid.SampledFrom(c17Msgs).Draw(t, "msg")+"'")
		}
		r.Acts = append(r.Acts, fmt.Sprintf("setvar:tx.h%d=+1", r.ID))
		if rapid.IntRange(0, 3).Draw(t, "chain") == 0 {
			l := &Rule{Acts: []string{fmt.Sprintf("setvar:tx.l%d=+1", r.ID)}}
			genC17Rule(t, l)
			r.Chain = append(r.Chain, l)
		}
		if r.Disr == "pass" && rapid.IntRange(0, 4).Draw(t, "skip") == 0 {
			// a skip window over rules that the directive / ctl may remove: a removed rule is not there to be skipped
			r.Skip = rapid.IntRange(1, 2).Draw(t, "skipn")
		}
		c.Base = append(c.Base, r)
	}
	d := &c.Dir
	d.Kind = rapid.SampledFrom([]string{"removeById", "removeByTag", "removeByMsg", "updTargetById", "updTargetById", "updTargetByTag", "updActionById", "updActionById", "ctl", "ctl", "ctl", "updTagCtl"}).Draw(t, "kind")
	genIDs := func() []string {
		var out []string
		k := rapid.IntRange(1, 3).Draw(t, "nids")
		for i := 0; i < k; i++ {
			a := 801 + rapid.IntRange(0, n-1).Draw(t, "ida")
			if rapid.IntRange(0, 2).Draw(t, "range") == 0 {
				b := a + rapid.IntRange(0, 3).Draw(t, "span")
				out = append(out, fmt.Sprintf("%d-%d", a, b))
			} else {
				out = append(out, strconv.Itoa(a))
			}
		}
		return out
	}
	genTargets := func(negOnly bool) []Target {
		var ts []Target
		k := rapid.IntRange(1, 2).Draw(t, "nupd")
		for i := 0; i < k; i++ {
			tg := Target{Var: rapid.SampledFrom([]string{"ARGS_GET", "ARGS", "REQUEST_HEADERS", "ARGS_GET_NAMES"}).Draw(t, "uvar")}
			tg.Neg = negOnly || rapid.Bool().Draw(t, "uneg")
			switch rapid.IntRange(0, 3).Draw(t, "usel") {
			case 0, 1:
				if tg.Var == "REQUEST_HEADERS" {
					tg.Key = rapid.SampledFrom([]string{"h1", "h2"}).Draw(t, "uhkey")
				} else {
					tg.Key = rapid.SampledFrom(c17Names).Draw(t, "ukey")
				}
			case 2:
				tg.Rx, tg.Key = true, rapid.SampledFrom([]string{"^a", "b$", "^c", "^H", "^A"}).Draw(t, "urx")
			}
			ts = append(ts, tg)
		}
		return ts
	}
	switch d.Kind {
	case "removeById":
		d.IDs = genIDs()
	case "removeByTag":
		d.Tag = rapid.SampledFrom(c17Tags).Draw(t, "dtag")
	case "removeByMsg":
		d.Msg = rapid.SampledFrom(c17Msgs).Draw(t, "dmsg")
	case "updTargetById":
		d.IDs = genIDs()
		d.Targets = genTargets(false)
	case "updTargetByTag":
		d.Tag = rapid.SampledFrom(c17Tags).Draw(t, "dtag")
		d.Targets = genTargets(false)
	case "updActionById":
		d.IDs = genIDs()
		d.Actions = rapid.SampledFrom([][]string{{"deny"}, {"pass"}, {"deny", "status:401"}, {"setvar:tx.upd=+1"}, {"t:none", "t:lowercase"}, {"drop"}, {"status:418"}, {"nolog", "setvar:tx.upd=+2"}}).Draw(t, "uacts")
	case "updTagCtl":
		// a tag given to rules by SecRuleUpdateActionById, then a run-time removal by that tag
		d.IDs = genIDs()
		d.Tag = "tnew"
		d.CtlOpt = rapid.SampledFrom([]string{"ruleRemoveByTag", "ruleRemoveByTag", "ruleRemoveTargetByTag"}).Draw(t, "ctlopt2")
		d.CtlPhase = rapid.IntRange(1, 3).Draw(t, "ctlphase2")
		d.CtlPos = rapid.IntRange(0, n).Draw(t, "ctlpos2")
		if rapid.Bool().Draw(t, "ctlcond2") {
			d.CtlCond = rapid.IntRange(1, 2).Draw(t, "ctlcondk2")
		}
		for i, r := range c.Base {
			if i < d.CtlPos && r.Phase == d.CtlPhase {
				r.Skip = 0
			}
		}
		if d.CtlOpt == "ruleRemoveTargetByTag" {
			d.Targets = genTargets(true)[:1]
		}
	case "ctl":
		d.CtlOpt = rapid.SampledFrom([]string{"ruleRemoveById", "ruleRemoveById", "ruleRemoveByTag", "ruleRemoveByMsg", "ruleRemoveTargetById", "ruleRemoveTargetById", "ruleRemoveTargetByTag", "ruleRemoveTargetByMsg"}).Draw(t, "ctlopt")
		d.CtlPhase = rapid.IntRange(1, 3).Draw(t, "ctlphase")
		d.CtlPos = rapid.IntRange(0, n).Draw(t, "ctlpos")
		if rapid.Bool().Draw(t, "ctlcond") {
			d.CtlCond = rapid.IntRange(1, 2).Draw(t, "ctlcondk")
		}
		// the rule carrying the ctl must itself run: no skip window of its phase may open in front of it
		for i, r := range c.Base {
			if i < d.CtlPos && r.Phase == d.CtlPhase {
				r.Skip = 0
			}
		}
		switch d.CtlOpt {
		case "ruleRemoveById", "ruleRemoveTargetById":
			d.IDs = genIDs()[:1]
		case "ruleRemoveByTag", "ruleRemoveTargetByTag":
			d.Tag = rapid.SampledFrom(c17Tags).Draw(t, "dtag")
		default:
			d.Msg = rapid.SampledFrom(c17Msgs).Draw(t, "dmsg")
		}
		if strings.HasPrefix(d.CtlOpt, "ruleRemoveTarget") {
			// one ctl action per target: several removals on the same rule accumulate
			d.Targets = genTargets(true)
			if d.CtlOpt == "ruleRemoveTargetById" && rapid.IntRange(0, 2).Draw(t, "exacttarget") == 0 {
				// the removal names exactly a target the rule inspects, spelled as the rule spells it
				if id, err := strconv.Atoi(strings.SplitN(d.IDs[0], "-", 2)[0]); err == nil {
					for _, r := range c.Base {
						if r.ID == id && len(r.Targets) > 0 && !r.Targets[0].Neg && !r.Targets[0].Count {
							tg := r.Targets[0]
							tg.Neg = true
							d.Targets = []Target{tg}
						}
					}
				}
			}
			if rapid.Bool().Draw(t, "pair") {
				// two removals on one collection that differ only in their regex key (or: a regex key, then the whole collection)
				v := rapid.SampledFrom([]string{"ARGS_GET", "ARGS", "ARGS_GET_NAMES"}).Draw(t, "pairvar")
				rx := []string{"^a", "b$", "^c", "^x", "."}
				first := Target{Var: v, Neg: true, Rx: true, Key: rapid.SampledFrom(rx).Draw(t, "prx1")}
				second := Target{Var: v, Neg: true, Rx: true, Key: rapid.SampledFrom(rx).Draw(t, "prx2")}
				switch rapid.IntRange(0, 3).Draw(t, "pairkind") {
				case 0:
					second = Target{Var: v, Neg: true} // whole collection
				case 1:
					second = Target{Var: v, Neg: true, Key: rapid.SampledFrom(c17Names).Draw(t, "pkey")}
				}
				d.Targets = []Target{first, second}
				if rapid.Bool().Draw(t, "pairswap") {
					d.Targets = []Target{second, first}
				}
			}
		}
	}
	c.Req = Req{Method: "GET", Path: "/p", Headers: []KV{{"h1", rapid.SampledFrom([]string{"v1", "x", "a1"}).Draw(t, "h1")}, {"H2", rapid.SampledFrom([]string{"v", "1", "b"}).Draw(t, "h2")}}}
	na := rapid.IntRange(2, 7).Draw(t, "nargs")
	for i := 0; i < na; i++ {
		c.Req.Query = append(c.Req.Query, KV{rapid.SampledFrom(c17Names).Draw(t, "an"), rapid.SampledFrom([]string{"v", "v1", "1", "a", "V1", "0", ""}).Draw(t, "av")})
	}
	return c
}

func idSelected(specs []string, id int) bool {
	for _, s := range specs {
		a, b, isRange := strings.Cut(s, "-")
		lo, _ := strconv.Atoi(a)
		hi := lo
		if isRange {
			hi, _ = strconv.Atoi(b)
		}
		if id >= lo && id <= hi {
			return true
		}
	}
	return false
}

func ruleHas(r *Rule, kind, val string) bool {
	for _, a := range r.Acts {
		if a == kind+":'"+val+"'" {
			return true
		}
	}
	return false
}

func cloneRule(r *Rule) *Rule {
	cp := *r
	cp.Targets = append([]Target(nil), r.Targets...)
	cp.Acts = append([]string(nil), r.Acts...)
	cp.Trans = append([]string(nil), r.Trans...)
	cp.Chain = nil
	for _, l := range r.Chain {
		cp.Chain = append(cp.Chain, cloneRule(l))
	}
	return &cp
}

func renderTargetList(ts []Target) string { return renderTargets(ts) }

// configs builds (directive form, rewritten form) for the request at hand.
func (c *C17Case) configs() (dirConf, rewConf string, ctlFires bool) {
	d := c.Dir
	pre := "SecRuleEngine On\n"
	selected := func(r *Rule) bool {
		switch {
		case len(d.IDs) > 0:
			return idSelected(d.IDs, r.ID)
		case d.Tag != "":
			return ruleHas(r, "tag", d.Tag)
		case d.Msg != "":
			return ruleHas(r, "msg", d.Msg)
		}
		return false
	}
	var dirRules, rewRules []string
	// ---- directive form
	isCtl := d.Kind == "ctl" || d.Kind == "updTagCtl"
	for i, r := range c.Base {
		if isCtl && d.CtlPos == i {
			dirRules = append(dirRules, c.ctlRule().Render())
		}
		dirRules = append(dirRules, r.Render())
	}
	if isCtl && d.CtlPos >= len(c.Base) {
		dirRules = append(dirRules, c.ctlRule().Render())
	}
	dirConf = pre + strings.Join(dirRules, "")
	switch d.Kind {
	case "removeById":
		dirConf += "SecRuleRemoveById " + strings.Join(d.IDs, " ") + "\n"
	case "removeByTag":
		dirConf += "SecRuleRemoveByTag " + d.Tag + "\n"
	case "removeByMsg":
		dirConf += "SecRuleRemoveByMsg " + d.Msg + "\n"
	case "updTargetById":
		dirConf += "SecRuleUpdateTargetById " + strings.Join(d.IDs, " ") + " \"" + renderTargetList(d.Targets) + "\"\n"
	case "updTargetByTag":
		dirConf += "SecRuleUpdateTargetByTag " + d.Tag + " \"" + renderTargetList(d.Targets) + "\"\n"
	case "updActionById":
		dirConf += "SecRuleUpdateActionById " + strings.Join(d.IDs, " ") + " \"" + strings.Join(d.Actions, ",") + "\"\n"
	case "updTagCtl":
		dirConf += "SecRuleUpdateActionById " + strings.Join(d.IDs, " ") + " \"tag:'" + d.Tag + "'\"\n"
	}
	// ---- rewritten form
	if isCtl {
		ctlFires = d.CtlCond == 0
		for _, kv := range c.Req.Query {
			if d.CtlCond > 0 && kv.K == fmt.Sprintf("c%d", d.CtlCond) && kv.V == "1" {
				ctlFires = true
			}
		}
	}
	for i, r := range c.Base {
		if isCtl && d.CtlPos == i {
			rewRules = append(rewRules, c.ctlRuleInert().Render())
		}
		nr := cloneRule(r)
		sel := selected(r)
		switch d.Kind {
		case "removeById", "removeByTag", "removeByMsg":
			if sel {
				continue
			}
		case "updTargetById", "updTargetByTag":
			// a list behaves like the enumeration of its members: an id named twice is updated twice
			for k := 0; k < timesSelected(d, r, sel); k++ {
				nr.Targets = append(nr.Targets, d.Targets...)
			}
		case "updActionById":
			for k := 0; k < timesSelected(d, r, sel); k++ {
				applyActionUpdate(nr, d.Actions)
			}
		case "ctl", "updTagCtl":
			if d.Kind == "updTagCtl" && sel {
				nr.Acts = append(nr.Acts, "tag:'"+d.Tag+"'")
			}
			later := r.Phase > d.CtlPhase || (r.Phase == d.CtlPhase && i >= d.CtlPos)
			if sel && ctlFires && later {
				if strings.HasPrefix(d.CtlOpt, "ruleRemoveTarget") {
					nr.Targets = append(nr.Targets, d.Targets...)
					for _, l := range nr.Chain {
						l.Targets = append(l.Targets, d.Targets...)
					}
				} else {
					continue
				}
			}
		}
		rewRules = append(rewRules, nr.Render())
	}
	if isCtl && d.CtlPos >= len(c.Base) {
		rewRules = append(rewRules, c.ctlRuleInert().Render())
	}
	rewConf = pre + strings.Join(rewRules, "")
	return
}

func timesSelected(d C17Dir, r *Rule, sel bool) int {
	if !sel {
		return 0
	}
	if len(d.IDs) == 0 {
		return 1
	}
	n := 0
	for _, spec := range d.IDs {
		if idSelected([]string{spec}, r.ID) {
			n++
		}
	}
	return n
}

func applyActionUpdate(r *Rule, acts []string) {
	for _, a := range acts {
		name, val, _ := strings.Cut(a, ":")
		switch name {
		case "deny", "pass", "drop":
			r.Disr = name
		case "status":
			r.Status, _ = strconv.Atoi(val)
		case "t":
			if val == "none" {
				r.Trans = nil
			} else {
				r.Trans = append(r.Trans, val)
			}
		default:
			r.Acts = append(r.Acts, a)
		}
	}
}

func (c *C17Case) ctlValue() string {
	d := c.Dir
	v := ""
	switch {
	case d.Kind == "updTagCtl":
		v = d.Tag
	case len(d.IDs) > 0:
		v = d.IDs[0]
	case d.Tag != "":
		v = d.Tag
	default:
		v = d.Msg
	}
	return v
}

func (c *C17Case) ctlRule() *Rule {
	d := c.Dir
	r := &Rule{ID: 899, Phase: d.CtlPhase, Disr: "pass"}
	if len(d.Targets) == 0 {
		r.Acts = append(r.Acts, "ctl:"+d.CtlOpt+"="+c.ctlValue())
	}
	for _, tg := range d.Targets {
		tg.Neg = false
		r.Acts = append(r.Acts, "ctl:"+d.CtlOpt+"="+c.ctlValue()+";"+tg.String())
	}
	r.Acts = append(r.Acts, "setvar:tx.ctl=+1")
	if d.CtlCond == 0 {
		r.SecAction = true
	} else {
		r.Targets = []Target{{Var: "ARGS_GET", Key: fmt.Sprintf("c%d", d.CtlCond)}}
		r.Op, r.Arg = "streq", "1"
	}
	return r
}

// ctlRuleInert is the same rule without the ctl action (so fired ids and counters line up).
func (c *C17Case) ctlRuleInert() *Rule {
	r := c.ctlRule()
	r.Acts = []string{"setvar:tx.ctl=+1"}
	return r
}

func checkC17(c *C17Case) Result {
	res := Result{}
	dirConf, rewConf, ctlFires := c.configs()
	wd, err := newWAF(dirConf)
	if err != nil {
		// a directive naming only ids that do not exist is documented to error
		if strings.Contains(err.Error(), "not found") {
			res.Labels = append(res.Labels, "directive-rejected-unknown-id")
			return res
		}
		res.Fail = failf("directive form rejected: %v\n%s", err, dirConf)
		return res
	}
	defer closeWAF(wd)
	wr, err := newWAF(rewConf)
	if err != nil {
		res.Fail = failf("rewritten form rejected: %v\n%s", err, rewConf)
		return res
	}
	defer closeWAF(wr)
	od, f := runCanonical(wd, &c.Req)
	if f != nil {
		res.Fail = f
		return res
	}
	or, f := runCanonical(wr, &c.Req)
	if f != nil {
		res.Fail = f
		return res
	}
	sd, sr := canonOutcome(od), canonOutcome(or)
	if sd != sr {
		res.Fail = failf("the directive form and the explicitly rewritten configuration behave differently:\n--- directive form\n%s--- rewritten\n%s\ndirective configuration:\n%s\nrewritten configuration:\n%s\nrequest: %s headers=%q", sd, sr, dirConf, rewConf, c.Req.URI(), c.Req.Headers)
		return res
	}
	// a second transaction that does not trigger the ctl behaves like the base configuration
	if c.Dir.Kind == "ctl" && c.Dir.CtlCond > 0 {
		req2 := c.Req
		req2.Query = nil
		for _, kv := range c.Req.Query {
			if kv.K == fmt.Sprintf("c%d", c.Dir.CtlCond) {
				kv.V = "0"
			}
			req2.Query = append(req2.Query, kv)
		}
		o2, f := runCanonical(wd, &req2)
		if f != nil {
			res.Fail = f
			return res
		}
		base := "SecRuleEngine On\n"
		for i, r := range c.Base {
			if c.Dir.CtlPos == i {
				base += c.ctlRuleInert().Render()
			}
			base += r.Render()
		}
		if c.Dir.CtlPos >= len(c.Base) {
			base += c.ctlRuleInert().Render()
		}
		wb, err := newWAF(base)
		if err != nil {
			res.Fail = failf("base configuration rejected: %v", err)
			return res
		}
		ob, f := runCanonical(wb, &req2)
		closeWAF(wb)
		if f != nil {
			res.Fail = f
			return res
		}
		if canonOutcome(o2) != canonOutcome(ob) {
			res.Fail = failf("a later transaction that does not execute the ctl is affected by it:\n--- after a transaction that ran the ctl\n%s--- base configuration\n%s\nconfiguration:\n%s", canonOutcome(o2), canonOutcome(ob), dirConf)
			return res
		}
		res.Labels = append(res.Labels, "second-transaction-checked")
	}
	// non-triviality: the directive changes the outcome for this request
	base := "SecRuleEngine On\n"
	for _, r := range c.Base {
		base += r.Render()
	}
	changed := false
	if wb, err := newWAF(base); err == nil {
		if ob, f := runCanonical(wb, &c.Req); f == nil {
			ob2 := *ob
			od2 := *od
			delete(od2.TX, "ctl")
			// drop the ctl rule from the fired list before comparing with the base
			var fl []Fired
			for _, fr := range od2.Fired {
				if fr.ID != 899 {
					fl = append(fl, fr)
				}
			}
			od2.Fired = fl
			changed = canonOutcome(&ob2) != canonOutcome(&od2)
		}
		closeWAF(wb)
	}
	res.NonTrivial = changed
	res.Labels = append(res.Labels, "kind:"+c.Dir.Kind)
	if c.Dir.Kind == "ctl" {
		res.Labels = append(res.Labels, "ctl:"+c.Dir.CtlOpt)
		if ctlFires {
			res.Labels = append(res.Labels, "ctl-executed")
		}
	}
	for _, r := range c.Base {
		if r.Skip > 0 && (strings.HasPrefix(c.Dir.Kind, "remove") || strings.HasPrefix(c.Dir.CtlOpt, "ruleRemoveBy")) && changed {
			res.Labels = append(res.Labels, "removal-with-skip-window")
			break
		}
	}
	if len(c.Dir.IDs) > 1 {
		res.Labels = append(res.Labels, "several-ids")
	}
	for _, s := range c.Dir.IDs {
		if strings.Contains(s, "-") {
			res.Labels = append(res.Labels, "id-range")
		}
	}
	for _, tg := range c.Dir.Targets {
		if tg.Rx {
			res.Labels = append(res.Labels, "regex-key-target")
		}
		if !tg.Neg {
			res.Labels = append(res.Labels, "positive-target")
		}
	}
	for _, r := range c.Base {
		if len(r.Chain) > 0 && changed {
			res.Labels = append(res.Labels, "chain-in-base")
			break
		}
	}
	if changed {
		res.Labels = append(res.Labels, "outcome-changed:"+c.Dir.Kind)
	}
	return res
}

func TestC17(t *testing.T) {
	runProp(t, "C17", genC17, checkC17)
}

func init() {
	registerReplay("C17", func(c *C17Case) *Failure { return checkC17(c).Fail })
}
