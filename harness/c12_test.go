// C12 — Sharing transformation work between rules never substitutes a wrong value.
package verifharness

import (
	"fmt"
	"strings"
	"sync"
	"testing"

	"github.com/corazawaf/coraza/v3"
	"github.com/corazawaf/coraza/v3/experimental"
	"github.com/corazawaf/coraza/v3/internal/transformations"
	"github.com/corazawaf/coraza/v3/types"
	"pgregory.net/rapid"
)

const nVerifID = 24

var c12Once sync.Once
var c12Custom []string

func c12Setup() {
	c12Once.Do(func() {
		loadVocab()
		for i := 0; i < nVerifID; i++ {
			// identity transformations with distinct names: prefixing a rule's list with its own one
			// makes every transformation-chain id unique, so no cache entry can be shared between rules
			transformations.Register(fmt.Sprintf("verifid%d", i), verifIDs[i])
		}
		// user-registered transformations made by one factory (closures of one function literal), as a plugin
		// author would write them: same code, different behaviour
		transformations.Register("verifswapa", c12Swapper('a', 'x'))
		transformations.Register("verifswapb", c12Swapper('b', 'x'))
		transformations.Register("verifswapx", c12Swapper('x', 'a'))
		// a plugin is free to choose its name: this one spells like two others joined by '+'
		transformations.Register("verifswapa+verifswapb", c12Swapper('b', 'y'))
		c12Custom = []string{"verifswapa", "verifswapb", "verifswapx"}
	})
}

// c12Swapper is the factory: every transformation it returns is a closure of the one function literal below
// (kept out of line, so that the compiler does not clone the literal per call site).
//
//go:noinline
func c12Swapper(from, to byte) func(string) (string, bool, error) {
	return func(s string) (string, bool, error) {
		if strings.IndexByte(s, from) < 0 {
			return s, false, nil
		}
		return strings.ReplaceAll(s, string(from), string(to)), true, nil
	}
}

type C12Case struct {
	RS         RuleSet `json:"ruleset"`
	Req        Req     `json:"request"`
	MatchedVar bool    `json:"matched_var_scenario,omitempty"`
	Siblings   bool    `json:"plugin_siblings,omitempty"`
	// CloseDuringBuild: while the WAF under test is being compiled (after its first rule) another WAF of the process
	// is built and closed, as a configuration reload does
	CloseDuringBuild bool `json:"close_during_build,omitempty"`
}

var c12Targets = [][]Target{
	{{Var: "ARGS_GET"}}, {{Var: "ARGS_GET", Key: "a"}}, {{Var: "ARGS"}}, {{Var: "ARGS"}, {Var: "ARGS", Key: "b", Neg: true}},
	{{Var: "ARGS_GET"}, {Var: "ARGS_GET", Key: "a", Neg: true}}, {{Var: "ARGS_GET", Key: "^a", Rx: true}}, {{Var: "ARGS_GET", Count: true}},
	{{Var: "ARGS_GET"}, {Var: "ARGS_GET"}}, {{Var: "ARGS_GET_NAMES"}},
	// counts of one collection that differ through an exclusion or a key: several numbers, possibly with the same digits
	{{Var: "ARGS_GET", Count: true}, {Var: "ARGS_GET", Key: "a", Neg: true}}, {{Var: "ARGS_GET", Count: true}, {Var: "ARGS_GET", Key: "b", Neg: true}},
	{{Var: "ARGS_GET", Count: true, Key: "a"}}, {{Var: "ARGS", Count: true}}, {{Var: "ARGS_GET", Count: true}}, {{Var: "ARGS_NAMES"}}, {{Var: "ARGS_GET", Key: "b"}, {Var: "ARGS_GET"}},
	{{Var: "MATCHED_VARS"}}, {{Var: "MATCHED_VARS_NAMES"}}, {{Var: "RULE", Key: "id"}}, {{Var: "RULE", Key: "id"}},
	{{Var: "REQUEST_URI"}}, {{Var: "REQUEST_HEADERS"}}, {{Var: "REQUEST_HEADERS", Key: "h"}}, {{Var: "TX", Key: "v"}}, {{Var: "QUERY_STRING"}},
	{{Var: "ARGS_POST"}}, {{Var: "REQUEST_COOKIES"}}, {{Var: "ENV", Key: "VERIF_C12"}},
}

func genC12Rule(t *rapid.T, r *Rule, prefixes [][]string, changing *bool) {
	r.Targets = append([]Target(nil), rapid.SampledFrom(c12Targets).Draw(t, "targets")...)
	for _, tg := range r.Targets {
		if strings.HasPrefix(tg.Var, "MATCHED_") || tg.Var == "RULE" || tg.Var == "ENV" {
			*changing = true
		}
	}
	count := r.Targets[0].Count
	if count {
		// the (transformed) number is compared as text as well, so that a wrong number shows
		switch rapid.IntRange(0, 3).Draw(t, "countop") {
		case 0:
			r.Op, r.Arg = "ge", "1"
		case 1:
			r.Op, r.Arg = "streq", rapid.SampledFrom([]string{"1", "2", "3", "4", "5", "31", "32", "33", "34", "35", "Mg==", "Mw==", "NA=="}).Draw(t, "countarg")
		case 2:
			r.Op, r.Arg = "rx", rapid.SampledFrom([]string{"^[135]", "[24]$", "^3[0-9]$", "^M"}).Draw(t, "countrx")
		default:
			r.Op, r.Arg = "contains", rapid.SampledFrom([]string{"2", "3", "4", "w"}).Draw(t, "countsub")
		}
	} else {
		r.Op = rapid.SampledFrom([]string{"rx", "contains", "streq", "unconditionalMatch", "pm", "beginsWith", "rx"}).Draw(t, "op")
		switch r.Op {
		case "rx":
			r.Arg = rapid.SampledFrom([]string{".", "^a", "x", "(?i)abc", "[0-9]", "^$"}).Draw(t, "rx")
		case "unconditionalMatch":
		default:
			r.Arg = rapid.SampledFrom([]string{"a", "x", "abc", "1", "select"}).Draw(t, "arg")
		}
		r.OpNeg = rapid.IntRange(0, 5).Draw(t, "neg") == 0
	}
	// transformation list: a shared prefix plus 0..2 more
	tr := append([]string(nil), rapid.SampledFrom(prefixes).Draw(t, "prefix")...)
	more := rapid.IntRange(0, 2).Draw(t, "more")
	for i := 0; i < more; i++ {
		if rapid.IntRange(0, 3).Draw(t, "custom") == 0 {
			tr = append(tr, rapid.SampledFrom(c12Custom).Draw(t, "ct"))
			continue
		}
		tr = append(tr, rapid.SampledFrom(vocabData.transformations).Draw(t, "t"))
	}
	var clean []string
	for _, x := range tr {
		if !strings.EqualFold(x, "none") && !strings.HasPrefix(x, "verifid") {
			clean = append(clean, x)
		}
	}
	r.Trans = clean
	if rapid.IntRange(0, 9).Draw(t, "multi") == 0 {
		r.Multi = true // control group: documented as uncached
	}
}

func genC12(t *rapid.T) *C12Case {
	c12Setup()
	c := &C12Case{}
	// a few prefixes shared by the rules of this case
	np := rapid.IntRange(1, 3).Draw(t, "nprefix")
	var prefixes [][]string
	for i := 0; i < np; i++ {
		n := rapid.IntRange(1, 2).Draw(t, "plen")
		var p []string
		for j := 0; j < n; j++ {
			p = append(p, rapid.SampledFrom(vocabData.transformations).Draw(t, "pt"))
		}
		prefixes = append(prefixes, p)
	}
	phase := rapid.IntRange(1, 2).Draw(t, "phase")
	n := rapid.IntRange(2, 6).Draw(t, "nrules")
	changing := false
	id := 500
	c.RS.Pre = []string{"SecRuleEngine On", "SecRequestBodyAccess On"}
	c.RS.Items = append(c.RS.Items, Item{Rule: &Rule{ID: 499, Phase: 1, SecAction: true, Disr: "pass", Acts: []string{"setvar:tx.v=AbC", "setenv:VERIF_C12=Xy"}}})
	for i := 0; i < n; i++ {
		id++
		r := &Rule{ID: id, Phase: phase, Disr: "pass", Acts: []string{fmt.Sprintf("setvar:tx.c%d=+1", id)}}
		genC12Rule(t, r, prefixes, &changing)
		if rapid.IntRange(0, 4).Draw(t, "chain") == 0 {
			l := &Rule{Acts: []string{fmt.Sprintf("setvar:tx.l%d=+1", id)}}
			genC12Rule(t, l, prefixes, &changing)
			r.Chain = append(r.Chain, l)
		}
		if rapid.IntRange(0, 5).Draw(t, "changer") == 0 {
			// order-independent change of the TX / ENV content read by other rules
			r.Acts = append(r.Acts, "setvar:tx.v=%{tx.v}x", "setenv:VERIF_C12=%{tx.v}")
		}
		c.RS.Items = append(c.RS.Items, Item{Rule: r})
	}
	if rapid.IntRange(0, 3).Draw(t, "siblings") == 0 {
		// two rules whose lists differ only in the last step, both steps being transformations registered by a plugin
		// (made by one factory): same targets, evaluated one after the other on the same values
		pre := rapid.SampledFrom(prefixes).Draw(t, "sibprefix")
		var clean []string
		for _, x := range pre {
			if !strings.EqualFold(x, "none") {
				clean = append(clean, x)
			}
		}
		tg := rapid.SampledFrom([][]Target{{{Var: "ARGS_GET"}}, {{Var: "ARGS"}}, {{Var: "REQUEST_HEADERS", Key: "h"}}}).Draw(t, "sibtargets")
		joined := rapid.IntRange(0, 2).Draw(t, "joinedname") == 0
		for k := 0; k < 2; k++ {
			id++
			last := []string{c12Custom[(k+rapid.IntRange(0, 2).Draw(t, "sibc"))%3]}
			if joined {
				// one rule applies two transformations, the other ONE transformation whose name reads like the two joined
				last = [][]string{{"verifswapa", "verifswapb"}, {"verifswapa+verifswapb"}}[k]
			}
			c.RS.Items = append(c.RS.Items, Item{Rule: &Rule{ID: id, Phase: phase, Disr: "pass", Op: "rx", Arg: rapid.SampledFrom([]string{"x", "a", "b", "^x", "y"}).Draw(t, "sibrx"),
				Targets: append([]Target(nil), tg...), Trans: append(append([]string(nil), clean...), last...),
				Acts: []string{fmt.Sprintf("setvar:tx.c%d=+1", id)}}})
		}
		c.Siblings = true
	}
	if rapid.IntRange(0, 2).Draw(t, "matchedvar") == 0 {
		// MATCHED_VAR / MATCHED_VAR_NAME keep the last match: deterministic only after single-valued
		// targets, so this scenario interleaves single-valued matches with readers of MATCHED_VAR*
		tr := rapid.SampledFrom(prefixes).Draw(t, "mvprefix")
		var clean []string
		for _, x := range tr {
			if !strings.EqualFold(x, "none") {
				clean = append(clean, x)
			}
		}
		c.RS.Items = c.RS.Items[:1]
		singles := [][]Target{{{Var: "REQUEST_HEADERS", Key: "h"}}, {{Var: "REQUEST_URI"}}, {{Var: "REQUEST_HEADERS", Key: "H2"}}, {{Var: "QUERY_STRING"}}, {{Var: "REQUEST_METHOD"}}}
		k := rapid.IntRange(2, 3).Draw(t, "mvrounds")
		for i := 0; i < k; i++ {
			id++
			// the matcher's own transformations decide what MATCHED_VAR holds: trimming ones return a part of the
			// same string, so successive rounds leave values that start at the same byte and differ in length
			var mtr []string
			if rapid.Bool().Draw(t, "mtrans") {
				mtr = rapid.SampledFrom([][]string{{"trimRight"}, {"trim"}, {"trimLeft"}, {"trimRight", "lowercase"}, {"removeNulls"}}).Draw(t, "mtr")
			}
			c.RS.Items = append(c.RS.Items, Item{Rule: &Rule{ID: id, Phase: phase, Disr: "pass", Op: "unconditionalMatch", Trans: mtr,
				Targets: append([]Target(nil), rapid.SampledFrom(singles).Draw(t, "single")...), Acts: []string{fmt.Sprintf("setvar:tx.c%d=+1", id)}}})
			id++
			c.RS.Items = append(c.RS.Items, Item{Rule: &Rule{ID: id, Phase: phase, Disr: "pass", Op: "rx", Arg: rapid.SampledFrom([]string{".", "^/", "a", "[A-Z]"}).Draw(t, "mvrx"),
				Targets: []Target{{Var: rapid.SampledFrom([]string{"MATCHED_VAR", "MATCHED_VAR_NAME", "MATCHED_VAR"}).Draw(t, "mv")}}, Trans: clean,
				Acts: []string{fmt.Sprintf("setvar:tx.c%d=+1", id)}}})
		}
		changing = true
		c.MatchedVar = true
	}
	c.Req = Req{Method: "POST", Path: "/p", Headers: []KV{{"h", rapid.SampledFrom(c01Values).Draw(t, "hv")}, {"H2", "abc"}}}
	if c.MatchedVar && rapid.Bool().Draw(t, "padded") {
		c.Req.Headers[0].V = rapid.SampledFrom([]string{"abc  ", "  AbC ", "/x y  ", "a \t", "A1   "}).Draw(t, "padhv")
		c.Req.Headers[1].V = rapid.SampledFrom([]string{"abc", "Zb  ", " q"}).Draw(t, "padh2")
	}
	na := rapid.IntRange(2, 8).Draw(t, "nargs")
	for i := 0; i < na; i++ {
		c.Req.Query = append(c.Req.Query, KV{rapid.SampledFrom([]string{"a", "a", "a", "b", "c", "A", "ab"}).Draw(t, "an"), rapid.SampledFrom(c01Values).Draw(t, "av")})
	}
	if rapid.Bool().Draw(t, "post") {
		c.Req.Post = []KV{{"a", rapid.SampledFrom(c01Values).Draw(t, "pv")}, {"p", "q"}}
	}
	c.Req.Cookies = []KV{{"sid", "abc"}}
	c.CloseDuringBuild = rapid.IntRange(0, 3).Draw(t, "closeduringbuild") == 0
	return c
}

// uniqueChains returns the same rule set where every rule / link has its own identity
// transformation in front of its list.
func uniqueChains(rs *RuleSet) *RuleSet {
	out := &RuleSet{Pre: rs.Pre}
	k := 0
	clone := func(r *Rule) *Rule {
		cp := *r
		cp.Trans = append([]string{fmt.Sprintf("verifid%d", k%nVerifID)}, r.Trans...)
		k++
		return &cp
	}
	for _, it := range rs.Items {
		if it.Rule == nil {
			out.Items = append(out.Items, it)
			continue
		}
		r := clone(it.Rule)
		r.Chain = nil
		for _, l := range it.Rule.Chain {
			r.Chain = append(r.Chain, clone(l))
		}
		out.Items = append(out.Items, Item{Rule: r})
	}
	return out
}

func checkC12(c *C12Case) Result {
	c12Setup()
	res := Result{}
	confA := c.RS.Render()
	confB := uniqueChains(&c.RS).Render()
	var wa coraza.WAF
	var err error
	if c.CloseDuringBuild {
		n := 0
		wa, err = coraza.NewWAF(experimental.WAFConfigWithRuleObserver(coraza.NewWAFConfig(), func(types.RuleMetadata) {
			n++
			if n <= 6 { // after each of the first rules
				if other, err := newWAF("SecRule ARGS \"@rx z\" \"id:7,phase:1,pass,t:none,t:lowercase,t:trim\"\nSecRule ARGS \"@rx y\" \"id:8,phase:1,pass,t:none,t:urlDecode\""); err == nil {
					closeWAF(other)
				}
			}
		}).WithDirectives(confA))
		res.Labels = append(res.Labels, "another-waf-closed-during-the-build")
	} else {
		wa, err = newWAF(confA)
	}
	if err != nil {
		res.Fail = failf("configuration rejected: %v\n%s", err, confA)
		return res
	}
	defer closeWAF(wa)
	wb, err := newWAF(confB)
	if err != nil {
		res.Fail = failf("configuration with identity prefixes rejected: %v\n%s", err, confB)
		return res
	}
	defer closeWAF(wb)
	for rep := 0; rep < 4; rep++ {
		oa, f := runCanonical(wa, &c.Req)
		if f != nil {
			res.Fail = f
			return res
		}
		ob, f := runCanonical(wb, &c.Req)
		if f != nil {
			res.Fail = f
			return res
		}
		// environment is process wide: it is part of both runs in the same way; compare everything else
		sa, sb := canonOutcome(oa), canonOutcome(ob)
		if sa != sb {
			res.Fail = failf("outcome with shared transformation chains differs from the outcome with per-rule unique chains (repetition %d):\n--- shared (config A)\n%s--- unique (config B)\n%s\nconfig A:\n%srequest: %s post=%q headers=%q", rep, sa, sb, confA, c.Req.URI(), c.Req.Post, c.Req.AllHeaders())
			return res
		}
		if rep == 3 && len(oa.Fired) >= 2 {
			res.Labels = append(res.Labels, ">=2-rules-fired")
		}
	}
	statExtra("transactions", 8)
	// non-triviality: two rules share their first transformation over overlapping collections, or
	// a target whose content changes during the phase is read by a rule with transformations
	type sig struct{ fam, first string }
	seen := map[sig]int{}
	changingRead := 0
	var all []*Rule
	for _, r := range c.RS.Rules() {
		all = append(all, r)
		all = append(all, r.Chain...)
	}
	for _, r := range all {
		if len(r.Trans) == 0 || r.Multi {
			continue
		}
		for _, tg := range r.Targets {
			if tg.Neg {
				continue
			}
			fam := tg.Var
			if strings.HasPrefix(fam, "ARGS") {
				fam = "ARGS*"
			}
			seen[sig{fam, strings.ToLower(r.Trans[0])}]++
			if strings.HasPrefix(tg.Var, "MATCHED_") || tg.Var == "RULE" || tg.Var == "ENV" {
				changingRead++
				res.Labels = append(res.Labels, "reads:"+tg.Var)
			}
		}
	}
	shared := false
	for _, n := range seen {
		if n >= 2 {
			shared = true
		}
	}
	if shared {
		res.Labels = append(res.Labels, "shared-prefix-over-overlapping-targets")
	}
	if changingRead >= 2 {
		res.Labels = append(res.Labels, "changing-target-read-twice")
	}
	for _, r := range all {
		if r.Multi {
			res.Labels = append(res.Labels, "multimatch-control")
			break
		}
	}
	if c.Siblings && !c.MatchedVar {
		res.Labels = append(res.Labels, "plugin-sibling-transformations")
	}
	res.NonTrivial = shared || changingRead >= 2
	return res
}

func TestC12(t *testing.T) {
	runProp(t, "C12", genC12, checkC12)
}

func init() {
	registerReplay("C12", func(c *C12Case) *Failure { return checkC12(c).Fail })
}
