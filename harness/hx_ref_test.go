// Reference evaluator for the SecLang core (DESIGN.md §3.3): an independent interpreter written
// from the directive/action documentation, used as the model for C01, C02, C08 and C09.
package verifharness

import (
	"encoding/base64"
	"encoding/hex"
	"fmt"
	"regexp"
	"strconv"
	"strings"
	"unicode"
	"unicode/utf8"
)

type RefDefault struct {
	Disr     string
	Status   int
	Redirect string
}

type RefCfg struct {
	Engine         string              `json:"engine"` // On | DetectionOnly | Off
	ReqBodyAccess  bool                `json:"reqbody"`
	RespBodyAccess bool                `json:"respbody"`
	Defaults       map[int]*RefDefault `json:"defaults,omitempty"` // SecDefaultAction per phase
}

func (c RefCfg) PreLines() []string {
	var l []string
	l = append(l, "SecRuleEngine "+c.Engine)
	if c.ReqBodyAccess {
		l = append(l, "SecRequestBodyAccess On")
	}
	if c.RespBodyAccess {
		l = append(l, "SecResponseBodyAccess On", "SecResponseBodyMimeType text/plain")
	}
	for p := 1; p <= 5; p++ {
		if d := c.Defaults[p]; d != nil {
			a := fmt.Sprintf("phase:%d", p)
			if d.Status != 0 {
				a += fmt.Sprintf(",status:%d", d.Status)
			}
			if d.Disr == "redirect" {
				a += ",redirect:" + d.Redirect
			} else {
				a += "," + d.Disr
			}
			l = append(l, fmt.Sprintf("SecDefaultAction \"%s\"", a))
		}
	}
	return l
}

// ---- model transformations -----------------------------------------------------------------

const refTrimSet = " \t\n\r\f\v"

var refTransNames = []string{"lowercase", "uppercase", "trim", "trimLeft", "trimRight", "length", "removeNulls",
	"removeWhitespace", "urlDecode", "hexEncode", "base64Encode"}

func refHexVal(c byte) (byte, bool) {
	switch {
	case c >= '0' && c <= '9':
		return c - '0', true
	case c >= 'a' && c <= 'f':
		return c - 'a' + 10, true
	case c >= 'A' && c <= 'F':
		return c - 'A' + 10, true
	}
	return 0, false
}

func refTransform(name, v string) string {
	switch strings.ToLower(name) {
	case "lowercase":
		if isASCII([]byte(v)) {
			return asciiLower([]byte(v))
		}
		return strings.ToLower(v)
	case "uppercase":
		if isASCII([]byte(v)) {
			return asciiUpper([]byte(v))
		}
		return strings.ToUpper(v)
	case "trim":
		return strings.Trim(v, refTrimSet)
	case "trimleft":
		return strings.TrimLeft(v, refTrimSet)
	case "trimright":
		return strings.TrimRight(v, refTrimSet)
	case "length":
		return strconv.Itoa(len(v))
	case "removenulls":
		return strings.ReplaceAll(v, "\x00", "")
	case "removewhitespace":
		var sb strings.Builder
		for i := 0; i < len(v); {
			r, n := utf8.DecodeRuneInString(v[i:])
			if !(r != utf8.RuneError && unicode.IsSpace(r)) {
				sb.WriteString(v[i : i+n])
			}
			i += n
		}
		return sb.String()
	case "urldecode":
		var sb strings.Builder
		for i := 0; i < len(v); i++ {
			c := v[i]
			if c == '+' {
				sb.WriteByte(' ')
				continue
			}
			if c == '%' && i+2 < len(v) {
				h, ok1 := refHexVal(v[i+1])
				l, ok2 := refHexVal(v[i+2])
				if ok1 && ok2 {
					sb.WriteByte(h<<4 | l)
					i += 2
					continue
				}
			}
			sb.WriteByte(c)
		}
		return sb.String()
	case "hexencode":
		return hex.EncodeToString([]byte(v))
	case "base64encode":
		return base64.StdEncoding.EncodeToString([]byte(v))
	case "none":
		return v
	}
	panic("refTransform: unmodelled transformation " + name)
}

// ---- model operators ---------------------------------------------------------------------

var refOpNames = []string{"streq", "contains", "beginsWith", "endsWith", "within", "eq", "ge", "gt", "le", "lt", "rx", "pm",
	"unconditionalMatch", "noMatch", "strmatch"}

func refAtoi(s string) int {
	// documented as integer comparison; for operands that are not integers the engine uses what
	// strconv.Atoi returns along with its error (0, or the saturated value on overflow)
	n, _ := strconv.Atoi(s)
	return n
}

func asciiFoldContains(hay, needle string) bool {
	return strings.Contains(asciiLower([]byte(hay)), asciiLower([]byte(needle)))
}

var refRxCache = map[string]*regexp.Regexp{}

func refRx(pat string) *regexp.Regexp {
	if re, ok := refRxCache[pat]; ok {
		return re
	}
	re := regexp.MustCompile(pat)
	if len(refRxCache) > 5000 {
		refRxCache = map[string]*regexp.Regexp{}
	}
	refRxCache[pat] = re
	return re
}

func refOp(op, arg, v string) bool {
	switch op {
	case "streq":
		return v == arg
	case "contains", "strmatch":
		return strings.Contains(v, arg)
	case "beginsWith":
		return strings.HasPrefix(v, arg)
	case "endsWith":
		return strings.HasSuffix(v, arg)
	case "within":
		return strings.Contains(arg, v)
	case "eq":
		return refAtoi(v) == refAtoi(arg)
	case "ge":
		return refAtoi(v) >= refAtoi(arg)
	case "gt":
		return refAtoi(v) > refAtoi(arg)
	case "le":
		return refAtoi(v) <= refAtoi(arg)
	case "lt":
		return refAtoi(v) < refAtoi(arg)
	case "rx":
		return refRx("(?sm)" + arg).MatchString(v)
	case "pm":
		for _, p := range strings.Split(arg, " ") {
			if p != "" && asciiFoldContains(v, p) {
				return true
			}
		}
		return false
	case "unconditionalMatch":
		return true
	case "noMatch":
		return false
	}
	panic("refOp: unmodelled operator " + op)
}

// ---- model state ------------------------------------------------------------------------------

type refTX struct {
	keys []string          // insertion order of lower-cased keys
	val  map[string]string // lower-cased key -> value
}

func (t *refTX) get(k string) (string, bool) { v, ok := t.val[strings.ToLower(k)]; return v, ok }
func (t *refTX) set(k, v string) {
	k = strings.ToLower(k)
	if _, ok := t.val[k]; !ok {
		t.keys = append(t.keys, k)
	}
	t.val[k] = v
}
func (t *refTX) del(k string) {
	k = strings.ToLower(k)
	if _, ok := t.val[k]; ok {
		delete(t.val, k)
		for i, x := range t.keys {
			if x == k {
				t.keys = append(t.keys[:i], t.keys[i+1:]...)
				break
			}
		}
	}
}

type refModel struct {
	rs   *RuleSet
	req  *Req
	cfg  RefCfg
	fed  int // highest phase whose input data is available
	tx   *refTX
	out  *Outcome
	intr *Intr
	// flow
	skip      int
	skipAfter string
	allow     string // "", phase, request, all
	highest   int
	// per-match macro context
	matchedVar, matchedVarName string
	curRule                    *Rule
	curTop                     *Rule
	// counts of matches per rule id (for accounting identities)
	matchCount map[int]int
	// instrumentation for non-triviality rules
	nSkipped, nEvalAfterSkip int
	marks                    map[string]bool
}

func (m *refModel) mark(l string) {
	if m.marks == nil {
		m.marks = map[string]bool{}
	}
	m.marks[l] = true
}

var argsFamily = map[string]bool{"ARGS": true, "ARGS_NAMES": true, "ARGS_GET": true, "ARGS_POST": true, "ARGS_GET_NAMES": true, "ARGS_POST_NAMES": true}

func namesOf(kvs []KV) []KV {
	out := make([]KV, len(kvs))
	for i, kv := range kvs {
		out[i] = KV{kv.K, kv.K}
	}
	return out
}

func (m *refModel) postPairs() []KV {
	if m.fed >= 2 && m.cfg.ReqBodyAccess && m.req.Post != nil && len(m.req.Body()) > 0 {
		return m.req.Post
	}
	return nil
}

// entries returns the current content of a collection as (key, value) pairs.
func (m *refModel) entries(v string) []KV {
	r := m.req
	switch v {
	case "ARGS_GET":
		return r.Query
	case "ARGS_POST":
		return m.postPairs()
	case "ARGS":
		return append(append([]KV(nil), r.Query...), m.postPairs()...)
	case "ARGS_GET_NAMES":
		return namesOf(r.Query)
	case "ARGS_POST_NAMES":
		return namesOf(m.postPairs())
	case "ARGS_NAMES":
		return append(namesOf(r.Query), namesOf(m.postPairs())...)
	case "REQUEST_HEADERS":
		return r.AllHeaders()
	case "REQUEST_HEADERS_NAMES":
		return namesOf(r.AllHeaders())
	case "REQUEST_COOKIES":
		return r.Cookies
	case "REQUEST_COOKIES_NAMES":
		return namesOf(r.Cookies)
	case "REQUEST_URI":
		return []KV{{"", r.URI()}}
	case "QUERY_STRING":
		return []KV{{"", r.RawQuery()}}
	case "REQUEST_METHOD":
		return []KV{{"", r.Method}}
	case "REQUEST_PROTOCOL":
		return []KV{{"", "HTTP/1.1"}}
	case "REMOTE_ADDR":
		return []KV{{"", "10.0.0.1"}}
	case "REQUEST_BODY":
		if m.fed >= 2 && m.cfg.ReqBodyAccess && r.Post != nil && len(r.Body()) > 0 {
			return []KV{{"", string(r.Body())}}
		}
		return []KV{{"", ""}}
	case "RESPONSE_STATUS":
		if m.fed >= 3 {
			st := r.RespStatus
			if st == 0 {
				st = 200
			}
			return []KV{{"", strconv.Itoa(st)}}
		}
		return []KV{{"", ""}}
	case "RESPONSE_HEADERS":
		if m.fed >= 3 {
			return r.RespHeaders
		}
		return nil
	case "RESPONSE_HEADERS_NAMES":
		if m.fed >= 3 {
			return namesOf(r.RespHeaders)
		}
		return nil
	case "TX":
		var out []KV
		for _, k := range m.tx.keys {
			out = append(out, KV{k, m.tx.val[k]})
		}
		return out
	}
	panic("refModel: unmodelled variable " + v)
}

var singleVars = map[string]bool{"REQUEST_URI": true, "QUERY_STRING": true, "REQUEST_METHOD": true, "REQUEST_PROTOCOL": true,
	"REMOTE_ADDR": true, "REQUEST_BODY": true, "RESPONSE_STATUS": true}

// keyRegex: regex keys match names case-insensitively (names are lower-cased before comparison).
func keyRegexMatch(pat, name string) bool {
	return refRx(strings.ToLower(pat)).MatchString(strings.ToLower(name))
}

func (m *refModel) selectTarget(t Target, all []Target) []KV {
	es := m.entries(t.Var)
	var sel []KV
	for _, e := range es {
		switch {
		case t.Rx:
			if !keyRegexMatch(t.Key, e.K) {
				continue
			}
		case t.Key != "":
			if strings.ToLower(e.K) != strings.ToLower(t.Key) {
				continue
			}
		}
		excluded := false
		for _, x := range all {
			if !x.Neg || x.Var != t.Var {
				continue
			}
			switch {
			case x.Rx:
				if keyRegexMatch(x.Key, e.K) {
					excluded = true
				}
			case x.Key == "":
				excluded = true
			default:
				if strings.ToLower(x.Key) == strings.ToLower(e.K) {
					excluded = true
				}
			}
		}
		if !excluded {
			sel = append(sel, e)
		}
	}
	if t.Count {
		return []KV{{t.Key, strconv.Itoa(len(sel))}}
	}
	return sel
}

// ---- macros and actions -----------------------------------------------------------------------

var reMacro = regexp.MustCompile(`%\{([A-Za-z0-9_.\-\[\]]+)\}`)

func (m *refModel) expand(s string) string {
	return reMacro.ReplaceAllStringFunc(s, func(tok string) string {
		inner := tok[2 : len(tok)-1]
		name, key, _ := strings.Cut(inner, ".")
		switch strings.ToUpper(name) {
		case "TX":
			if v, ok := m.tx.get(key); ok {
				return v
			}
			if isCaptureKey(strings.ToLower(key)) {
				return "" // TX.0-9 exist, empty, from the start of the transaction
			}
			return inner // undocumented corner; generators do not reference missing keys
		case "MATCHED_VAR":
			return m.matchedVar
		case "MATCHED_VAR_NAME":
			return m.matchedVarName
		case "RULE":
			switch strings.ToLower(key) {
			case "id":
				return strconv.Itoa(m.curTop.ID)
			case "msg":
				// the message of the rule being evaluated (the generators use it with literal messages only); a rule
				// without one has none
				for _, a := range m.curRule.Acts {
					if n, v, _ := strings.Cut(a, ":"); strings.EqualFold(n, "msg") {
						return unquoteAct(v)
					}
				}
				return ""
			}
		case "REQUEST_METHOD":
			return m.req.Method
		}
		panic("refModel: unmodelled macro " + tok)
	})
}

// what an undefined %{tx.key} / %{TX.key} expands to: its own text
var reUndefinedTX = regexp.MustCompile(`^(?i:tx)\.nosuch[0-9]*$`)

func unquoteAct(v string) string {
	if len(v) >= 2 && v[0] == '\'' && v[len(v)-1] == '\'' {
		return v[1 : len(v)-1]
	}
	return v
}

func (m *refModel) runNonDisruptive(r *Rule) {
	for _, a := range r.Acts {
		name, val, _ := strings.Cut(a, ":")
		val = unquoteAct(val)
		switch strings.ToLower(name) {
		case "setvar":
			m.setvar(val)
		}
	}
}

func (m *refModel) setvar(spec string) {
	remove := false
	if strings.HasPrefix(spec, "!") {
		remove = true
		spec = spec[1:]
	}
	kpart, vpart, hasVal := strings.Cut(spec, "=")
	_, key, _ := strings.Cut(kpart, ".")
	key = m.expand(key)
	if remove {
		m.tx.del(key)
		return
	}
	if !hasVal {
		m.tx.set(key, "1")
		return
	}
	val := m.expand(vpart)
	switch {
	case val == "":
		m.tx.set(key, "")
	case val[0] == '+' || val[0] == '-':
		if reUndefinedTX.MatchString(val[1:]) {
			// the operand named a TX variable that does not exist: nothing to add, the counter keeps its value
			return
		}
		n, err := strconv.Atoi(val[1:])
		if err != nil {
			panic("refModel: non-numeric setvar operand " + val)
		}
		cur := 0
		if cv, ok := m.tx.get(key); ok && cv != "" {
			c, err := strconv.Atoi(cv)
			if err != nil {
				panic("refModel: arithmetic on non-numeric value " + cv)
			}
			cur = c
		}
		if val[0] == '+' {
			m.tx.set(key, strconv.Itoa(cur+n))
		} else {
			m.tx.set(key, strconv.Itoa(cur-n))
		}
	default:
		m.tx.set(key, val)
	}
}

func severityOf(r *Rule) (int, bool) {
	for _, a := range r.Acts {
		name, val, _ := strings.Cut(a, ":")
		if strings.EqualFold(name, "severity") {
			val = unquoteAct(val)
			if n, err := strconv.Atoi(val); err == nil {
				return n, true
			}
			names := map[string]int{"emergency": 0, "alert": 1, "critical": 2, "error": 3, "warning": 4, "notice": 5, "info": 6, "debug": 7}
			if n, ok := names[strings.ToLower(val)]; ok {
				return n, true
			}
		}
	}
	return 0, false
}

// ---- rule evaluation ----------------------------------------------------------------------------

func (m *refModel) transformValues(r *Rule, v string) []string {
	if !r.Multi {
		for _, t := range r.Trans {
			v = refTransform(t, v)
		}
		return []string{v}
	}
	vals := []string{v}
	for _, t := range r.Trans {
		nv := refTransform(t, v)
		if nv != v {
			vals = append(vals, nv)
		}
		v = nv
	}
	return vals
}

// evalOne evaluates one rule (starter or link) and returns its matched triples.
func (m *refModel) evalOne(r *Rule) []Triple {
	var matched []Triple
	m.curRule = r
	if r.SecAction {
		m.matchedVar, m.matchedVarName = "", ""
		m.runNonDisruptive(r)
		m.matchCount[m.curTop.ID]++
		return []Triple{{"UNKNOWN", "", ""}}
	}
	for _, t := range r.Targets {
		if t.Neg {
			continue
		}
		for _, e := range m.selectTarget(t, r.Targets) {
			for _, v := range m.transformValues(r, e.V) {
				res := refOp(r.Op, m.expand(r.Arg), v)
				if r.OpNeg {
					res = !res
				}
				if !res {
					continue
				}
				matched = append(matched, Triple{t.Var, e.K, v})
				if r.Capture && r.Op == "rx" && !r.OpNeg {
					// capture: TX.0-9 receive the matched texts of this evaluation; a group of the pattern that took no
					// part in the match holds the empty text
					sub := refRx("(?sm)" + m.expand(r.Arg)).FindStringSubmatch(v)
					for i := 0; i < len(sub) && i <= 9; i++ {
						m.tx.set(strconv.Itoa(i), sub[i])
					}
				}
				m.matchedVar = v
				if e.K != "" {
					m.matchedVarName = t.Var + ":" + e.K
				} else {
					m.matchedVarName = t.Var
				}
				if r == m.curTop {
					m.matchCount[r.ID]++
				}
				m.runNonDisruptive(r)
			}
		}
	}
	return matched
}

func (m *refModel) effectiveDisr(r *Rule, phase int) (disr string, status int, redirect string) {
	disr, status, redirect = r.Disr, r.Status, r.Redirect
	d := m.cfg.Defaults[phase]
	if d == nil && phase == 2 {
		d = &RefDefault{Disr: "pass"}
	}
	if d != nil {
		if status == 0 {
			status = d.Status
		}
		if disr == "" || disr == "block" {
			disr, redirect = d.Disr, d.Redirect
		}
	} else if disr == "block" {
		disr = "pass"
	}
	return
}

func (m *refModel) evalRule(r *Rule, phase int) {
	m.curTop = r
	all := m.evalOne(r)
	if len(all) == 0 {
		return
	}
	for _, l := range r.Chain {
		lm := m.evalOne(l)
		if len(lm) == 0 {
			return
		}
		all = append(all, lm...)
	}
	// whole rule / chain matched: flow and disruptive actions of the starter, once
	disr, status, redirect := m.effectiveDisr(r, phase)
	on := m.cfg.Engine == "On"
	switch disr {
	case "deny":
		if status == 0 {
			status = 403
		}
		m.interrupt(&Intr{RuleID: r.ID, Action: "deny", Status: status}, on)
	case "drop":
		m.interrupt(&Intr{RuleID: r.ID, Action: "drop", Status: status}, on)
	case "redirect":
		st := 302
		if status == 301 || status == 302 || status == 303 || status == 307 {
			st = status
		}
		m.interrupt(&Intr{RuleID: r.ID, Action: "redirect", Status: st, Data: redirect}, on)
	case "allow":
		if on {
			m.allow = "all"
		}
	case "allow:phase":
		if on {
			m.allow = "phase"
		}
	case "allow:request":
		if on {
			m.allow = "request"
			if phase > 2 {
				m.mark("allow-request-raised-after-request-phases")
			}
		}
	}
	if r.Skip > 0 {
		m.skip = r.Skip
	}
	if r.SkipAfter != "" {
		m.skipAfter = r.SkipAfter
	}
	f := Fired{ID: r.ID, Data: all}
	sortTriples(f.Data)
	m.out.Fired = append(m.out.Fired, f)
	if sev, ok := severityOf(r); ok && sev < m.highest {
		m.highest = sev
	}
}

func (m *refModel) interrupt(i *Intr, on bool) {
	if on && m.intr == nil {
		m.intr = i
	}
}

// runPhase evaluates one phase; returns the interruption visible after it.
func (m *refModel) runPhase(phase int) *Intr {
	if m.cfg.Engine == "Off" {
		return nil
	}
	m.skip = 0
	for _, it := range m.rs.Items {
		if m.intr != nil && phase != 5 {
			break
		}
		if it.Marker != "" {
			if m.skipAfter != "" && m.skipAfter == it.Marker {
				m.skipAfter = ""
			}
			continue
		}
		r := it.Rule
		if r == nil || r.Phase != phase {
			continue
		}
		if m.skipAfter != "" {
			m.nSkipped++
			m.mark("skipped-by-skipAfter")
			continue
		}
		if m.skip > 0 {
			m.skip--
			m.nSkipped++
			m.mark("skipped-by-skip")
			continue
		}
		stop := false
		switch m.allow {
		case "phase":
			stop = true
		case "request":
			if phase <= 2 {
				stop = true
			} else {
				m.allow = ""
			}
		case "all":
			if phase != 5 {
				stop = true
			}
		}
		if stop {
			m.nSkipped++
			m.mark("stopped-by-allow:" + m.allow)
			break
		}
		if m.nSkipped > 0 {
			m.nEvalAfterSkip++
		}
		if phase == 5 && m.allow == "all" {
			m.mark("phase-5-rule-after-allow")
		}
		if phase == 5 && m.intr != nil {
			m.mark("phase-5-rule-after-interruption")
		}
		m.evalRule(r, phase)
	}
	// nothing but the documented allow scopes carries into a later phase
	if m.allow == "phase" {
		m.allow = ""
	}
	if m.allow == "request" && phase >= 2 {
		m.allow = ""
	}
	if m.skip > 0 {
		m.mark("skip-larger-than-remaining-rules")
	}
	if m.skipAfter != "" {
		m.mark("marker-not-found-in-phase")
	}
	m.skip = 0
	m.skipAfter = ""
	return m.intr
}

// refEval runs the canonical script against the model.
func refEval(rs *RuleSet, req *Req, cfg RefCfg) (*Outcome, map[int]int) {
	o, m := refEvalM(rs, req, cfg)
	return o, m.matchCount
}

func refEvalM(rs *RuleSet, req *Req, cfg RefCfg) (*Outcome, *refModel) {
	m := &refModel{rs: rs, req: req, cfg: cfg, tx: &refTX{val: map[string]string{}}, out: &Outcome{PhaseIntr: make([]*Intr, 4)},
		highest: 255, matchCount: map[int]int{}}
	for p := 1; p <= 4; p++ {
		m.fed = p
		if it := m.runPhase(p); it != nil {
			m.out.PhaseIntr[p-1] = it
			break
		}
	}
	m.runPhase(5)
	m.out.Intr = m.intr
	m.out.TX = map[string]string{}
	for k, v := range m.tx.val {
		if !isCaptureKey(k) {
			m.out.TX[k] = v
		}
	}
	m.out.Highest = strconv.Itoa(m.highest)
	return m.out, m
}
