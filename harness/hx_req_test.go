// Request model, canonical API driver and outcome snapshot (DESIGN.md §3.2, §3.4).
package verifharness

import (
	"fmt"
	"sort"
	"strings"

	"github.com/corazawaf/coraza/v3"
	"github.com/corazawaf/coraza/v3/experimental/plugins/plugintypes"
	"github.com/corazawaf/coraza/v3/internal/corazawaf"
	"github.com/corazawaf/coraza/v3/types"
)

type KV struct {
	K string `json:"k"`
	V string `json:"v"`
}

type Req struct {
	Method      string `json:"method"`
	Path        string `json:"path"`
	Query       []KV   `json:"query,omitempty"`
	Headers     []KV   `json:"headers,omitempty"`
	Cookies     []KV   `json:"cookies,omitempty"`
	Post        []KV   `json:"post,omitempty"` // urlencoded body pairs
	RawBody     []byte `json:"rawbody,omitempty"`
	ContentType string `json:"ctype,omitempty"`
	RespStatus  int    `json:"rstatus,omitempty"`
	RespHeaders []KV   `json:"rheaders,omitempty"`
	RespBody    []byte `json:"rbody,omitempty"`
}

const hexUpper = "0123456789ABCDEF"

// pctEncode: conservative percent-encoding (everything but ALPHA / DIGIT / "-" "." "_" "~").
func pctEncode(s string) string {
	var sb strings.Builder
	for i := 0; i < len(s); i++ {
		c := s[i]
		if c >= 'a' && c <= 'z' || c >= 'A' && c <= 'Z' || c >= '0' && c <= '9' || c == '-' || c == '.' || c == '_' || c == '~' {
			sb.WriteByte(c)
		} else {
			sb.WriteByte('%')
			sb.WriteByte(hexUpper[c>>4])
			sb.WriteByte(hexUpper[c&15])
		}
	}
	return sb.String()
}

func encodePairs(kvs []KV) string {
	var parts []string
	for _, kv := range kvs {
		parts = append(parts, pctEncode(kv.K)+"="+pctEncode(kv.V))
	}
	return strings.Join(parts, "&")
}

func (r *Req) RawQuery() string { return encodePairs(r.Query) }

func (r *Req) URI() string {
	if len(r.Query) == 0 {
		return r.Path
	}
	return r.Path + "?" + r.RawQuery()
}

func (r *Req) Body() []byte {
	if r.Post != nil {
		return []byte(encodePairs(r.Post))
	}
	return r.RawBody
}

func (r *Req) CookieHeader() string {
	var parts []string
	for _, c := range r.Cookies {
		parts = append(parts, c.K+"="+c.V)
	}
	return strings.Join(parts, "; ")
}

// AllHeaders returns the header list actually sent, including the synthesised
// Content-Type and Cookie headers, in sending order.
func (r *Req) AllHeaders() []KV {
	hs := append([]KV(nil), r.Headers...)
	if r.Post != nil {
		hs = append(hs, KV{"Content-Type", "application/x-www-form-urlencoded"})
	} else if r.ContentType != "" {
		hs = append(hs, KV{"Content-Type", r.ContentType})
	}
	if len(r.Cookies) > 0 {
		hs = append(hs, KV{"Cookie", r.CookieHeader()})
	}
	return hs
}

// ---------------------------------------------------------------------------------------

type Intr struct {
	RuleID int    `json:"rule_id"`
	Action string `json:"action"`
	Status int    `json:"status"`
	Data   string `json:"data,omitempty"`
}

func intrOf(it *types.Interruption) *Intr {
	if it == nil {
		return nil
	}
	return &Intr{RuleID: it.RuleID, Action: it.Action, Status: it.Status, Data: it.Data}
}

func (i *Intr) String() string {
	if i == nil {
		return "<nil>"
	}
	return fmt.Sprintf("{rule:%d %s status:%d data:%q}", i.RuleID, i.Action, i.Status, i.Data)
}

func intrEq(a, b *Intr) bool {
	if a == nil || b == nil {
		return a == b
	}
	return *a == *b
}

type Triple struct {
	Var string `json:"var"`
	Key string `json:"key"`
	Val string `json:"val"`
}

type Fired struct {
	ID   int      `json:"id"`
	Data []Triple `json:"data"`
	Msg  string   `json:"msg,omitempty"`
	LogD string   `json:"logdata,omitempty"`
}

type Outcome struct {
	Intr      *Intr             `json:"interruption"`
	PhaseIntr []*Intr           `json:"phase_returns"` // what each phase call returned (canonical order), nil when not called
	Fired     []Fired           `json:"fired"`
	TX        map[string]string `json:"tx"`
	Highest   string            `json:"highest_severity"`
	Parts     string            `json:"audit_parts,omitempty"` // the transaction's audit-log parts after logging
	Errs      []string          `json:"errors,omitempty"`
}

func sortTriples(ts []Triple) {
	sort.Slice(ts, func(i, j int) bool {
		a, b := ts[i], ts[j]
		if a.Var != b.Var {
			return a.Var < b.Var
		}
		if a.Key != b.Key {
			return a.Key < b.Key
		}
		return a.Val < b.Val
	})
}

func collectFired(tx types.Transaction) []Fired {
	var out []Fired
	for _, mr := range tx.MatchedRules() {
		f := Fired{ID: mr.Rule().ID(), Msg: mr.Message(), LogD: mr.Data()}
		for _, md := range mr.MatchedDatas() {
			f.Data = append(f.Data, Triple{md.Variable().Name(), md.Key(), md.Value()})
			if f.Msg == "" {
				f.Msg = md.Message()
			}
			if f.LogD == "" {
				f.LogD = md.Data()
			}
		}
		sortTriples(f.Data)
		out = append(out, f)
	}
	return out
}

func firedIDs(fs []Fired) []int {
	ids := make([]int, 0, len(fs))
	for _, f := range fs {
		ids = append(ids, f.ID)
	}
	return ids
}

func collectTX(tx types.Transaction) (map[string]string, string) {
	ts, ok := tx.(plugintypes.TransactionState)
	if !ok {
		return nil, ""
	}
	out := map[string]string{}
	for _, md := range ts.Variables().TX().FindAll() {
		k := md.Key()
		if isCaptureKey(k) {
			continue
		}
		if _, dup := out[k]; !dup {
			out[k] = md.Value()
		}
	}
	return out, ts.Variables().HighestSeverity().Get()
}

func isCaptureKey(k string) bool {
	switch k {
	case "0", "1", "2", "3", "4", "5", "6", "7", "8", "9", "10":
		return true
	}
	return false
}

func newWAF(conf string) (coraza.WAF, error) {
	return coraza.NewWAF(coraza.NewWAFConfig().WithDirectives(conf))
}

func closeWAF(w coraza.WAF) {
	if cl, ok := w.(interface{ Close() error }); ok {
		_ = cl.Close()
	}
}

// runCanonical drives one transaction through the canonical connector order:
// connection, URI, request headers, phase 1, body, phase 2, response headers, phase 3,
// response body, phase 4, logging, close. After an interruption it goes straight to logging,
// as the connectors do.
func runCanonical(w coraza.WAF, r *Req) (out *Outcome, fail *Failure) {
	out = &Outcome{PhaseIntr: make([]*Intr, 4)}
	fail = guard("transaction", func() {
		tx := w.NewTransaction()
		defer func() { _ = tx.Close() }()
		finish := func() {
			tx.ProcessLogging()
			out.Intr = intrOf(tx.Interruption())
			out.Fired = collectFired(tx)
			out.TX, out.Highest = collectTX(tx)
			if ctx, ok := tx.(*corazawaf.Transaction); ok {
				b := make([]byte, 0, len(ctx.AuditLogParts))
				for _, p := range ctx.AuditLogParts {
					b = append(b, byte(p))
				}
				out.Parts = string(b)
			}
		}
		tx.ProcessConnection("10.0.0.1", 40000, "10.0.0.2", 80)
		tx.ProcessURI(r.URI(), r.Method, "HTTP/1.1")
		for _, h := range r.AllHeaders() {
			tx.AddRequestHeader(h.K, h.V)
		}
		if it := tx.ProcessRequestHeaders(); it != nil {
			out.PhaseIntr[0] = intrOf(it)
			finish()
			return
		}
		if body := r.Body(); len(body) > 0 {
			it, _, err := tx.WriteRequestBody(body)
			if err != nil {
				out.Errs = append(out.Errs, "WriteRequestBody: "+err.Error())
			}
			if it != nil {
				out.PhaseIntr[1] = intrOf(it)
				finish()
				return
			}
		}
		it, err := tx.ProcessRequestBody()
		if err != nil {
			out.Errs = append(out.Errs, "ProcessRequestBody: "+err.Error())
		}
		if it != nil {
			out.PhaseIntr[1] = intrOf(it)
			finish()
			return
		}
		for _, h := range r.RespHeaders {
			tx.AddResponseHeader(h.K, h.V)
		}
		status := r.RespStatus
		if status == 0 {
			status = 200
		}
		if it := tx.ProcessResponseHeaders(status, "HTTP/1.1"); it != nil {
			out.PhaseIntr[2] = intrOf(it)
			finish()
			return
		}
		if len(r.RespBody) > 0 {
			it, _, err := tx.WriteResponseBody(r.RespBody)
			if err != nil {
				out.Errs = append(out.Errs, "WriteResponseBody: "+err.Error())
			}
			if it != nil {
				out.PhaseIntr[3] = intrOf(it)
				finish()
				return
			}
		}
		it, err = tx.ProcessResponseBody()
		if err != nil {
			out.Errs = append(out.Errs, "ProcessResponseBody: "+err.Error())
		}
		if it != nil {
			out.PhaseIntr[3] = intrOf(it)
		}
		finish()
	})
	return
}

// diffFired compares two fired lists: same ids in the same order and, per rule, the same
// multiset of triples. countVars lists variables rendered with '&' whose key is not compared.
func diffFired(got, want []Fired, ignoreKeyFor func(ruleID int, t Triple) bool) string {
	return diffFiredSets(got, want, ignoreKeyFor, nil)
}

// diffFiredSets is diffFired where the match data of the rules selected by asSet is compared as a set: duplicates
// are dropped after the keys that are not compared have been masked (two triples that differ only in such a key
// are one element on both sides).
func diffFiredSets(got, want []Fired, ignoreKeyFor func(ruleID int, t Triple) bool, asSet func(ruleID int) bool) string {
	if fmt.Sprint(firedIDs(got)) != fmt.Sprint(firedIDs(want)) {
		return fmt.Sprintf("fired rule ids: got %v want %v", firedIDs(got), firedIDs(want))
	}
	for i := range got {
		g := append([]Triple(nil), got[i].Data...)
		w := append([]Triple(nil), want[i].Data...)
		if ignoreKeyFor != nil {
			for j := range g {
				if ignoreKeyFor(got[i].ID, g[j]) {
					g[j].Key = "*"
				}
			}
			for j := range w {
				if ignoreKeyFor(want[i].ID, w[j]) {
					w[j].Key = "*"
				}
			}
		}
		if asSet != nil && asSet(got[i].ID) {
			g, w = dedupTriples(g), dedupTriples(w)
		}
		sortTriples(g)
		sortTriples(w)
		if fmt.Sprintf("%q", g) != fmt.Sprintf("%q", w) {
			return fmt.Sprintf("rule %d match data: got %q want %q", got[i].ID, g, w)
		}
	}
	return ""
}
