// C02 — First disruptive match interrupts; interruption is final; engine modes hold.
package verifharness

import (
	"bytes"
	"fmt"
	"io"
	"strings"
	"testing"

	"github.com/corazawaf/coraza/v3"
	"github.com/corazawaf/coraza/v3/types"
	"pgregory.net/rapid"
)

type Call struct {
	Op   string `json:"op"` // conn uri hdr p1 wreq rreq p2 rhdr p3 wresp rresp p4 p5
	K    string `json:"k,omitempty"`
	V    string `json:"v,omitempty"`
	Data []byte `json:"data,omitempty"`
	Code int    `json:"code,omitempty"`
}

type C02Case struct {
	Cfg       RefCfg  `json:"cfg"`
	RS        RuleSet `json:"ruleset"`
	Req       Req     `json:"request"`
	Script    []Call  `json:"script"`
	Canonical bool    `json:"canonical"`
	RejectCfg bool    `json:"reject_limit_configured,omitempty"`
	// LimitReject: small body limits with the Reject action while the engine is On (or is switched by ctl): a body
	// write reaching the limit is itself a disruptive event (413 / 500, rule id 0)
	LimitReject bool `json:"limit_reject,omitempty"`
	// Warmup: the same script has just been run (and closed) on the same WAF: the transaction under test runs on
	// a recycled object and must start from the configured engine mode
	Warmup bool `json:"warmup,omitempty"`
	// AfterLogging: the script goes on with phase / body calls after ProcessLogging
	AfterLogging bool `json:"after_logging,omitempty"`
}

func canonicalScript(r *Req) []Call {
	var s []Call
	s = append(s, Call{Op: "conn"}, Call{Op: "uri"})
	for _, h := range r.AllHeaders() {
		s = append(s, Call{Op: "hdr", K: h.K, V: h.V})
	}
	s = append(s, Call{Op: "p1"})
	if b := r.Body(); len(b) > 0 {
		s = append(s, Call{Op: "wreq", Data: b})
	}
	s = append(s, Call{Op: "p2"})
	for _, h := range r.RespHeaders {
		s = append(s, Call{Op: "rhdr", K: h.K, V: h.V})
	}
	st := r.RespStatus
	if st == 0 {
		st = 200
	}
	s = append(s, Call{Op: "p3", Code: st})
	if len(r.RespBody) > 0 {
		s = append(s, Call{Op: "wresp", Data: r.RespBody})
	}
	s = append(s, Call{Op: "p4"}, Call{Op: "p5"})
	return s
}

var c02Disr = []string{"deny", "deny", "drop", "redirect", "block"}

func genC02(t *rapid.T) *C02Case {
	c := &C02Case{}
	c.Cfg.Engine = rapid.SampledFrom([]string{"On", "On", "On", "DetectionOnly", "Off"}).Draw(t, "engine")
	c.Cfg.ReqBodyAccess = rapid.Bool().Draw(t, "reqbody")
	c.Cfg.RespBodyAccess = rapid.Bool().Draw(t, "respbody")
	c.Cfg.Defaults = map[int]*RefDefault{}
	for p := 1; p <= 4; p++ {
		if rapid.IntRange(0, 3).Draw(t, "hasdefault") == 0 {
			d := &RefDefault{Disr: rapid.SampledFrom([]string{"deny", "drop", "pass", "redirect"}).Draw(t, "ddisr")}
			if d.Disr == "redirect" {
				d.Redirect = "http://default.example/"
			}
			if rapid.Bool().Draw(t, "dstatus") {
				d.Status = rapid.SampledFrom([]int{401, 302, 307, 500}).Draw(t, "dst")
			}
			c.Cfg.Defaults[p] = d
		}
	}
	const nconds = 5
	id := 200
	var items []Item
	for p := 1; p <= 5; p++ {
		n := rapid.IntRange(0, 4).Draw(t, "nrules")
		var phaseItems []Item
		for i := 0; i < n; i++ {
			id++
			r := &Rule{ID: id, Phase: p}
			if rapid.IntRange(0, 2).Draw(t, "isdisr") == 0 {
				if rapid.Bool().Draw(t, "uncond") {
					r.SecAction = true
				} else {
					genFlowCond(t, r, nconds)
				}
				r.Disr = rapid.SampledFrom(c02Disr).Draw(t, "disr")
				if r.Disr == "redirect" {
					r.Redirect = "http://r.example/x"
				}
				if rapid.Bool().Draw(t, "hasstatus") {
					r.Status = rapid.SampledFrom([]int{301, 302, 303, 307, 308, 400, 403, 404, 500}).Draw(t, "status")
				}
				if rapid.IntRange(0, 4).Draw(t, "multidisr") == 0 {
					// several disruptive actions in one rule: only the last one counts
					r.Acts = append(r.Acts, rapid.SampledFrom([]string{"deny", "pass", "drop"}).Draw(t, "earlier"))
				}
			} else {
				r.SecAction = true // tracer
				r.Disr = "pass"
			}
			phaseItems = append(phaseItems, Item{Rule: r})
		}
		// optional engine switch, at the end of the phase or anywhere inside it
		if rapid.IntRange(0, 19).Draw(t, "switch") == 0 {
			id++
			mode := rapid.SampledFrom([]string{"On", "DetectionOnly", "Off"}).Draw(t, "mode")
			sw := Item{Rule: &Rule{ID: id, Phase: p, SecAction: true, Disr: "pass", Acts: []string{"ctl:ruleEngine=" + mode}}}
			pos := len(phaseItems)
			if rapid.Bool().Draw(t, "switchinside") {
				pos = rapid.IntRange(0, len(phaseItems)).Draw(t, "switchpos")
			}
			phaseItems = append(phaseItems[:pos], append([]Item{sw}, phaseItems[pos:]...)...)
		}
		items = append(items, phaseItems...)
	}
	// interleave phases in configuration order: shuffle while keeping same-phase order
	perm := rapid.Permutation(items).Draw(t, "order")
	items = stablePhaseOrder(items, perm)
	// markers (pseudo-rules that belong to every phase) anywhere between the rules: they steer nothing here,
	// and they must not stop anything either
	for k, n := 0, rapid.IntRange(0, 2).Draw(t, "nmarkers"); k < n; k++ {
		pos := rapid.IntRange(0, len(items)).Draw(t, "markerpos")
		items = append(items[:pos], append([]Item{{Marker: fmt.Sprintf("MK%d", k)}}, items[pos:]...)...)
	}
	c.RS.Items = items
	c.RS.Pre = c.Cfg.PreLines()
	if c.Cfg.Engine == "DetectionOnly" && rapid.Bool().Draw(t, "rejectcfg") {
		c.RejectCfg = true
		c.RS.Pre = append(c.RS.Pre, "SecRequestBodyLimitAction Reject", "SecRequestBodyLimit 8")
	}
	if c.Cfg.Engine != "DetectionOnly" && rapid.IntRange(0, 3).Draw(t, "limitreject") == 0 {
		c.LimitReject = true
		c.RS.Pre = append(c.RS.Pre, "SecRequestBodyLimitAction Reject", "SecRequestBodyLimit 8", "SecResponseBodyLimitAction Reject", "SecResponseBodyLimit 8")
	}
	c.Req = Req{Method: "POST", Path: "/p"}
	for k := 1; k <= nconds; k++ {
		v := "0"
		if rapid.Bool().Draw(t, "on") {
			v = "1"
		}
		c.Req.Query = append(c.Req.Query, KV{fmt.Sprintf("c%d", k), v})
	}
	c.Req.Headers = []KV{{"Host", "h"}}
	if rapid.Bool().Draw(t, "hasbody") {
		c.Req.Post = []KV{{"b", "12345678901234567890"}}
	}
	c.Req.RespHeaders = []KV{{"Content-Type", "text/plain"}}
	if rapid.Bool().Draw(t, "hasrbody") {
		c.Req.RespBody = []byte("response body")
	}
	script := canonicalScript(&c.Req)
	c.Canonical = rapid.Bool().Draw(t, "canonical")
	if !c.Canonical {
		nmut := rapid.IntRange(1, 4).Draw(t, "nmut")
		for i := 0; i < nmut && len(script) > 1; i++ {
			last := len(script) - 1 // p5 stays last and single
			switch rapid.IntRange(0, 3).Draw(t, "mut") {
			case 0: // repeat a call
				j := rapid.IntRange(0, last-1).Draw(t, "j")
				k := rapid.IntRange(j, last-1).Draw(t, "k")
				script = append(script[:k+1], append([]Call{script[j]}, script[k+1:]...)...)
			case 1: // skip a call
				j := rapid.IntRange(0, last-1).Draw(t, "j")
				script = append(script[:j], script[j+1:]...)
			case 2: // swap two calls
				if last >= 2 {
					j := rapid.IntRange(0, last-1).Draw(t, "j")
					k := rapid.IntRange(0, last-1).Draw(t, "k")
					script[j], script[k] = script[k], script[j]
				}
			case 3: // reader based body call
				j := rapid.IntRange(0, last-1).Draw(t, "j")
				op := rapid.SampledFrom([]string{"rreq", "rresp", "wreq", "wresp"}).Draw(t, "bop")
				script = append(script[:j+1], append([]Call{{Op: op, Data: []byte("xy")}}, script[j+1:]...)...)
			}
		}
		if len(script) > 16 {
			script = append(script[:15], Call{Op: "p5"})
		}
	}
	if rapid.IntRange(0, 3).Draw(t, "afterlogging") == 0 {
		// phase and body calls that arrive after the logging phase (only calls after Close are excluded)
		for i, n := 0, rapid.IntRange(1, 4).Draw(t, "ntail"); i < n; i++ {
			op := rapid.SampledFrom([]string{"p1", "p2", "p3", "p4", "p1", "p3", "wreq", "wresp"}).Draw(t, "tailop")
			script = append(script, Call{Op: op, Code: 200, Data: []byte("xy")})
		}
		c.AfterLogging = true
	}
	c.Script = script
	c.Warmup = rapid.IntRange(0, 2).Draw(t, "warmup") == 0
	return c
}

// stablePhaseOrder places items in the order given by perm but keeps the relative order of
// items of the same phase (a switch rule must stay the last rule of its phase).
func stablePhaseOrder(orig []Item, perm []Item) []Item {
	next := map[int][]Item{}
	for _, it := range orig {
		next[it.Rule.Phase] = append(next[it.Rule.Phase], it)
	}
	var out []Item
	for _, it := range perm {
		p := it.Rule.Phase
		out = append(out, next[p][0])
		next[p] = next[p][1:]
	}
	return out
}

type callObs struct {
	Ret        *Intr
	IsPhase    bool
	Intr       *Intr
	NMatched   int
	Interrupt  bool
	N          int
	Err        string
	ReturnedNP bool // the call has a return value at all
}

func execScript(w coraza.WAF, r *Req, script []Call) (obs []callObs, fired []Fired, final *Intr, fail *Failure) {
	fail = guard("transaction script", func() {
		tx := w.NewTransaction()
		defer func() { _ = tx.Close() }()
		var reqReader, respReader io.Reader
		for _, c := range script {
			var it *types.Interruption
			o := callObs{}
			switch c.Op {
			case "conn":
				tx.ProcessConnection("10.0.0.1", 40000, "10.0.0.2", 80)
			case "uri":
				tx.ProcessURI(r.URI(), r.Method, "HTTP/1.1")
			case "hdr":
				tx.AddRequestHeader(c.K, c.V)
			case "p1":
				it = tx.ProcessRequestHeaders()
				o.IsPhase, o.ReturnedNP = true, true
			case "wreq":
				var err error
				it, o.N, err = tx.WriteRequestBody(c.Data)
				o.ReturnedNP = true
				if err != nil {
					o.Err = err.Error()
				}
			case "rreq":
				var err error
				it, o.N, err = tx.ReadRequestBodyFrom(bytes.NewReader(c.Data))
				o.ReturnedNP = true
				if err != nil {
					o.Err = err.Error()
				}
			case "p2":
				var err error
				it, err = tx.ProcessRequestBody()
				o.IsPhase, o.ReturnedNP = true, true
				if err != nil {
					o.Err = err.Error()
				}
			case "rhdr":
				tx.AddResponseHeader(c.K, c.V)
			case "p3":
				it = tx.ProcessResponseHeaders(c.Code, "HTTP/1.1")
				o.IsPhase, o.ReturnedNP = true, true
			case "wresp":
				var err error
				it, o.N, err = tx.WriteResponseBody(c.Data)
				o.ReturnedNP = true
				if err != nil {
					o.Err = err.Error()
				}
			case "rresp":
				var err error
				it, o.N, err = tx.ReadResponseBodyFrom(bytes.NewReader(c.Data))
				o.ReturnedNP = true
				if err != nil {
					o.Err = err.Error()
				}
			case "p4":
				var err error
				it, err = tx.ProcessResponseBody()
				o.IsPhase, o.ReturnedNP = true, true
				if err != nil {
					o.Err = err.Error()
				}
			case "p5":
				tx.ProcessLogging()
			case "close": // only generated by C07: the handle keeps being used after Close
				_ = tx.Close()
			case "rdr", "rdrresp": // only generated by C07: a body reader obtained once and read a few bytes at a time, between other calls
				which := &reqReader
				if c.Op == "rdrresp" {
					which = &respReader
				}
				if *which == nil {
					if c.Op == "rdr" {
						*which, _ = tx.RequestBodyReader()
					} else {
						*which, _ = tx.ResponseBodyReader()
					}
				}
				if *which != nil {
					_, _ = (*which).Read(make([]byte, 3))
				}
			}
			o.Ret = intrOf(it)
			o.Intr = intrOf(tx.Interruption())
			o.Interrupt = tx.IsInterrupted()
			o.NMatched = len(tx.MatchedRules())
			obs = append(obs, o)
		}
		fired = collectFired(tx)
		final = intrOf(tx.Interruption())
	})
	return
}

func (c *C02Case) ruleByID() map[int]*Rule {
	m := map[int]*Rule{}
	for _, r := range c.RS.Rules() {
		m[r.ID] = r
	}
	return m
}

func engineSwitch(r *Rule) string {
	for _, a := range r.Acts {
		if strings.HasPrefix(a, "ctl:ruleEngine=") {
			return strings.TrimPrefix(a, "ctl:ruleEngine=")
		}
	}
	return ""
}

func checkC02(c *C02Case) Result {
	res := Result{}
	conf := c.RS.Render()
	w, err := newWAF(conf)
	if err != nil {
		res.Fail = failf("generated configuration rejected: %v\n%s", err, conf)
		return res
	}
	defer closeWAF(w)
	if c.Warmup {
		if _, _, _, f := execScript(w, &c.Req, c.Script); f != nil {
			res.Fail = f
			return res
		}
		res.Labels = append(res.Labels, "after-another-transaction")
	}
	obs, fired, final, f := execScript(w, &c.Req, c.Script)
	if f != nil {
		res.Fail = f
		return res
	}
	ctx := func() string {
		var ops []string
		for _, s := range c.Script {
			ops = append(ops, s.Op)
		}
		return fmt.Sprintf("\nscript: %s\nfired: %v final: %v\nconfig:\n%s", strings.Join(ops, " "), firedIDs(fired), final, conf)
	}
	rules := c.ruleByID()
	m := &refModel{cfg: c.Cfg}

	// I5: engine Off from the start -> nothing is ever evaluated
	if c.Cfg.Engine == "Off" {
		if len(fired) != 0 || final != nil {
			res.Fail = failf("engine Off but rules fired or interrupted%s", ctx())
			return res
		}
		for i, o := range obs {
			if o.Ret != nil {
				res.Fail = failf("engine Off but call %d (%s) returned %v%s", i, c.Script[i].Op, o.Ret, ctx())
				return res
			}
		}
	}
	// I1: each rule of phases 1-4 fires at most once; order within a phase = configuration order
	seen := map[int]int{}
	for _, fr := range fired {
		seen[fr.ID]++
		r := rules[fr.ID]
		if r == nil {
			res.Fail = failf("unknown rule id %d fired%s", fr.ID, ctx())
			return res
		}
		if seen[fr.ID] > 1 {
			res.Fail = failf("rule %d (phase %d) was evaluated more than once%s", fr.ID, r.Phase, ctx())
			return res
		}
	}
	// engine mode in force before each call (rules fired during a call are fired[prev:cur] by the matched-rule count)
	limitCut := -1 // number of rules fired before a body-limit interruption appeared (-1: none)
	var limitIntr *Intr
	{
		modeNow := c.Cfg.Engine
		prevN := 0
		var prevIntr *Intr
		for i, o := range obs {
			op := c.Script[i].Op
			isBody := op == "wreq" || op == "rreq" || op == "wresp" || op == "rresp"
			if prevIntr == nil && o.Intr != nil && isBody && o.Intr.RuleID == 0 {
				if modeNow != "On" {
					res.Fail = failf("body call %d (%s) raised the interruption %v while the engine was %s (a limit with the Reject action must not disrupt unless the engine is On)%s", i, op, o.Intr, modeNow, ctx())
					return res
				}
				limitCut, limitIntr = prevN, o.Intr
			}
			for _, fr := range fired[min(prevN, len(fired)):min(o.NMatched, len(fired))] {
				if r := rules[fr.ID]; r != nil {
					if sw := engineSwitch(r); sw != "" {
						modeNow = sw
					}
				}
			}
			prevN, prevIntr = o.NMatched, o.Intr
		}
	}
	// I3/I4: walk the fired rules in order, tracking the engine mode, and predict the interruption
	mode := c.Cfg.Engine
	var want *Intr
	wantIdx := -1
	for i, fr := range fired {
		if mode == "Off" {
			res.Fail = failf("rule %d was evaluated although the engine had been switched Off by an earlier rule%s", fr.ID, ctx())
			return res
		}
		if limitCut >= 0 && i >= limitCut && want == nil {
			break // the body-limit interruption came first
		}
		r := rules[fr.ID]
		disr, status, redirect := m.effectiveDisr(r, r.Phase)
		if mode == "On" && want == nil {
			switch disr {
			case "deny":
				if status == 0 {
					status = 403
				}
				want, wantIdx = &Intr{RuleID: r.ID, Action: "deny", Status: status}, i
			case "drop":
				want, wantIdx = &Intr{RuleID: r.ID, Action: "drop", Status: status}, i
			case "redirect":
				st := 302
				if status == 301 || status == 302 || status == 303 || status == 307 {
					st = status
				}
				want, wantIdx = &Intr{RuleID: r.ID, Action: "redirect", Status: st, Data: redirect}, i
			}
		}
		if sw := engineSwitch(r); sw != "" {
			mode = sw
		}
	}
	if want == nil && limitIntr != nil {
		// interrupted by a body limit: final, and no rule of phases 1-4 fires afterwards
		if !intrEq(final, limitIntr) {
			res.Fail = failf("interruption is %v, but the transaction was first interrupted by the body limit: %v%s", final, limitIntr, ctx())
			return res
		}
		for _, fr := range fired[min(limitCut, len(fired)):] {
			if rules[fr.ID].Phase != 5 {
				res.Fail = failf("rule %d of phase %d was evaluated after the transaction was interrupted by the body limit%s", fr.ID, rules[fr.ID].Phase, ctx())
				return res
			}
		}
		res.Labels = append(res.Labels, "interrupted-by-body-limit")
	} else if !intrEq(final, want) {
		res.Fail = failf("interruption is %v, the first fired disruptive rule (engine On at that time) predicts %v%s", final, want, ctx())
		return res
	}
	// I2: after the interrupting rule only logging-phase rules may follow
	if wantIdx >= 0 {
		for _, fr := range fired[wantIdx+1:] {
			if rules[fr.ID].Phase != 5 && rules[want.RuleID].Phase != 5 {
				res.Fail = failf("rule %d of phase %d was evaluated after the transaction was interrupted by rule %d%s", fr.ID, rules[fr.ID].Phase, want.RuleID, ctx())
				return res
			}
		}
	}
	// per call: return values are the current interruption; once set it never changes
	var first *Intr
	for i, o := range obs {
		op := c.Script[i].Op
		if first != nil && !intrEq(o.Intr, first) {
			res.Fail = failf("Interruption() changed from %v to %v at call %d (%s)%s", first, o.Intr, i, op, ctx())
			return res
		}
		if o.Intr != nil && first == nil {
			first = o.Intr
		}
		if o.Interrupt != (o.Intr != nil) {
			res.Fail = failf("IsInterrupted()=%v but Interruption()=%v at call %d%s", o.Interrupt, o.Intr, i, ctx())
			return res
		}
		if o.IsPhase {
			// a phase call reports the interruption in force (the engine may have been switched
			// Off by ctl, in which case calls return nil)
			if o.Ret != nil && !intrEq(o.Ret, o.Intr) {
				res.Fail = failf("call %d (%s) returned %v but Interruption() is %v%s", i, op, o.Ret, o.Intr, ctx())
				return res
			}
			if o.Ret == nil && o.Intr != nil && !c.hasSwitchTo("Off") {
				res.Fail = failf("call %d (%s) returned nil although the transaction is interrupted by %v%s", i, op, o.Intr, ctx())
				return res
			}
		} else if o.ReturnedNP && o.Ret != nil && !intrEq(o.Ret, o.Intr) {
			res.Fail = failf("body call %d (%s) returned %v, a different interruption than %v%s", i, op, o.Ret, o.Intr, ctx())
			return res
		}
	}
	// I4: DetectionOnly without switches: no call returns or records anything
	if c.Cfg.Engine == "DetectionOnly" && !c.hasSwitchTo("On") {
		if final != nil {
			res.Fail = failf("DetectionOnly recorded an interruption %v%s", final, ctx())
			return res
		}
	}
	// canonical order without mode switches: complete prediction by the reference evaluator
	if c.Canonical && !c.hasAnySwitch() && !c.RejectCfg && !c.LimitReject {
		wantO, _ := refEval(&c.RS, &c.Req, c.Cfg)
		if d := diffFired(fired, wantO.Fired, nil); d != "" {
			res.Fail = failf("canonical order: %s; model fired %v%s", d, firedIDs(wantO.Fired), ctx())
			return res
		}
		if !intrEq(final, wantO.Intr) {
			res.Fail = failf("canonical order: interruption %v, model %v%s", final, wantO.Intr, ctx())
			return res
		}
	}

	// labels / non-triviality
	res.Labels = append(res.Labels, "engine:"+c.Cfg.Engine)
	anyDisrFired := false
	firstPos := true
	for i, fr := range fired {
		d, _, _ := m.effectiveDisr(rules[fr.ID], rules[fr.ID].Phase)
		if d == "deny" || d == "drop" || d == "redirect" {
			anyDisrFired = true
			res.Labels = append(res.Labels, "disruptive-fired:"+d)
			if i > 0 {
				firstPos = false
			}
			if rules[fr.ID].Disr == "block" {
				res.Labels = append(res.Labels, "block-inherits-default")
			}
		}
	}
	if c.hasAnySwitch() {
		res.Labels = append(res.Labels, "ctl-ruleEngine-switch")
	}
	if c.RejectCfg {
		res.Labels = append(res.Labels, "detectiononly+reject-configured")
	}
	if c.LimitReject {
		res.Labels = append(res.Labels, "limit-reject-configured")
	}
	if c.AfterLogging {
		res.Labels = append(res.Labels, "phase-calls-after-logging")
	}
	if !c.Canonical {
		res.Labels = append(res.Labels, "anomalous-script")
		res.NonTrivial = anyDisrFired
	} else {
		res.Labels = append(res.Labels, "canonical-script")
		res.NonTrivial = anyDisrFired && !firstPos
	}
	if want != nil && rules[want.RuleID].Phase < 5 {
		for _, fr := range fired[wantIdx+1:] {
			if rules[fr.ID].Phase == 5 {
				res.Labels = append(res.Labels, "phase5-after-interruption")
				break
			}
		}
	}
	return res
}

func (c *C02Case) hasSwitchTo(mode string) bool {
	for _, r := range c.RS.Rules() {
		if engineSwitch(r) == mode {
			return true
		}
	}
	return false
}

func (c *C02Case) hasAnySwitch() bool {
	for _, r := range c.RS.Rules() {
		if engineSwitch(r) != "" {
			return true
		}
	}
	return false
}

func TestC02(t *testing.T) {
	runProp(t, "C02", genC02, checkC02)
}

func init() {
	registerReplay("C02", func(c *C02Case) *Failure { return checkC02(c).Fail })
}
