// C08 — skip, skipAfter, allow and chain steer evaluation exactly as documented.
package verifharness

import (
	"fmt"
	"testing"

	"pgregory.net/rapid"
)

type FlowCase struct {
	Cfg RefCfg  `json:"cfg"`
	RS  RuleSet `json:"ruleset"`
	Req Req     `json:"request"`
	// After: the WAF has served (and closed) another transaction before: "same" request, or the request with every
	// condition switched on ("all"), which leaves whatever skip / allow state the rule set can produce
	After string `json:"after,omitempty"`
}

var c08Markers = []string{"M1", "M2", "M3"}

func genFlowCond(t *rapid.T, r *Rule, nconds int) {
	// condition on a request argument so that any subset of the rules may match
	k := rapid.IntRange(1, nconds).Draw(t, "cond")
	r.Targets = []Target{{Var: "ARGS_GET", Key: fmt.Sprintf("c%d", k)}}
	r.Op, r.Arg = "streq", "1"
}

func genC08(t *rapid.T) *FlowCase {
	c := &FlowCase{}
	c.Cfg.Engine = rapid.SampledFrom([]string{"On", "On", "On", "On", "DetectionOnly"}).Draw(t, "engine")
	const nconds = 6
	n := rapid.IntRange(4, 12).Draw(t, "nitems")
	id := 100
	var items []Item
	for i := 0; i < n; i++ {
		kind := rapid.IntRange(0, 11).Draw(t, "kind")
		if kind == 0 {
			items = append(items, Item{Marker: rapid.SampledFrom(c08Markers).Draw(t, "marker")})
			continue
		}
		id++
		r := &Rule{ID: id, Phase: rapid.IntRange(1, 5).Draw(t, "phase"), Disr: "pass"}
		switch kind {
		case 1, 2, 3, 4: // tracer
			r.SecAction = true
		case 5, 6: // skip
			if rapid.Bool().Draw(t, "uncond") {
				r.SecAction = true
			} else {
				genFlowCond(t, r, nconds)
			}
			r.Skip = rapid.IntRange(1, 4).Draw(t, "skip")
		case 7, 8: // skipAfter
			if rapid.Bool().Draw(t, "uncond") {
				r.SecAction = true
			} else {
				genFlowCond(t, r, nconds)
			}
			r.SkipAfter = rapid.SampledFrom(append(c08Markers, "ABSENT")).Draw(t, "target")
		case 9: // allow
			if rapid.Bool().Draw(t, "uncond") {
				r.SecAction = true
			} else {
				genFlowCond(t, r, nconds)
			}
			// allow:request in a response or logging phase has no request phase left to cover: it must not
			// reach past the phase it was raised in
			scopes := []string{"allow:phase", "allow:request"}
			if r.Phase <= 4 {
				scopes = append(scopes, "allow", "allow")
			}
			r.Disr = rapid.SampledFrom(scopes).Draw(t, "scope")
		case 10: // chain with a flow or disruptive action on the starter
			genFlowCond(t, r, nconds)
			nl := rapid.IntRange(1, 3).Draw(t, "links")
			for j := 0; j < nl; j++ {
				l := &Rule{}
				genFlowCond(t, l, nconds)
				r.Chain = append(r.Chain, l)
			}
			switch rapid.IntRange(0, 4).Draw(t, "chainact") {
			case 0:
				r.Skip = rapid.IntRange(1, 3).Draw(t, "skip")
			case 1:
				r.SkipAfter = rapid.SampledFrom(append(c08Markers, "ABSENT")).Draw(t, "target")
			case 2:
				r.Disr = "deny"
			case 3:
				if r.Phase <= 4 {
					r.Disr = "allow"
				} else {
					r.Disr = "allow:phase"
				}
			}
		case 11: // plain conditional deny
			genFlowCond(t, r, nconds)
			r.Disr = "deny"
			r.Status = rapid.SampledFrom([]int{0, 403, 418}).Draw(t, "status")
		}
		items = append(items, Item{Rule: r})
	}
	// Excluded by construction: a marker inside a skip window (whether a marker counts as a
	// rule is undocumented). Shrink the skip count so the window ends before the marker.
	for i, it := range items {
		if it.Rule == nil || it.Rule.Skip == 0 {
			continue
		}
		cnt := 0
		for j := i + 1; j < len(items) && cnt < it.Rule.Skip; j++ {
			if items[j].Marker != "" {
				statExcluded("marker-inside-skip-window")
				it.Rule.Skip = cnt
				break
			}
			if items[j].Rule != nil && items[j].Rule.Phase == it.Rule.Phase {
				cnt++
			}
		}
	}
	c.RS.Items = items
	c.RS.Pre = c.Cfg.PreLines()
	c.Req = Req{Method: "GET", Path: "/p"}
	for k := 1; k <= nconds; k++ {
		v := "0"
		if rapid.IntRange(0, 9).Draw(t, "on") < 6 {
			v = "1"
		}
		c.Req.Query = append(c.Req.Query, KV{fmt.Sprintf("c%d", k), v})
	}
	c.After = rapid.SampledFrom([]string{"", "", "same", "all", "all"}).Draw(t, "after")
	return c
}

func checkFlow(prop string) func(c *FlowCase) Result {
	return func(c *FlowCase) Result {
		res := Result{}
		conf := c.RS.Render()
		w, err := newWAF(conf)
		if err != nil {
			res.Fail = failf("generated configuration rejected: %v\n%s", err, conf)
			return res
		}
		defer closeWAF(w)
		if c.After != "" {
			pred := c.Req
			if c.After == "all" {
				pred.Query = nil
				for _, kv := range c.Req.Query {
					if len(kv.K) == 2 && kv.K[0] == 'c' {
						kv.V = "1"
					}
					pred.Query = append(pred.Query, kv)
				}
			}
			if _, f := runCanonical(w, &pred); f != nil {
				res.Fail = f
				return res
			}
			res.Labels = append(res.Labels, "after-another-transaction")
		}
		got, f := runCanonical(w, &c.Req)
		if f != nil {
			res.Fail = f
			return res
		}
		want, m := refEvalM(&c.RS, &c.Req, c.Cfg)
		if d := diffFired(got.Fired, want.Fired, nil); d != "" {
			res.Fail = failf("%s\nmodel fired %v, engine fired %v\nconfig:\n%srequest: %s", d, firedIDs(want.Fired), firedIDs(got.Fired), conf, c.Req.URI())
			return res
		}
		if !intrEq(got.Intr, want.Intr) {
			res.Fail = failf("interruption: got %v want %v\nconfig:\n%srequest: %s", got.Intr, want.Intr, conf, c.Req.URI())
			return res
		}
		for i := range got.PhaseIntr {
			if !intrEq(got.PhaseIntr[i], want.PhaseIntr[i]) {
				res.Fail = failf("phase %d call returned %v, model says %v\nconfig:\n%srequest: %s", i+1, got.PhaseIntr[i], want.PhaseIntr[i], conf, c.Req.URI())
				return res
			}
		}
		for l := range m.marks {
			res.Labels = append(res.Labels, l)
		}
		res.Labels = append(res.Labels, "engine:"+c.Cfg.Engine)
		res.NonTrivial = m.nSkipped > 0 && m.nEvalAfterSkip > 0
		return res
	}
}

func TestC08(t *testing.T) {
	runProp(t, "C08", genC08, checkFlow("C08"))
}

func init() {
	registerReplay("C08", func(c *FlowCase) *Failure { return checkFlow("C08")(c).Fail })
}
