// C04 — A transaction's outcome is a function of configuration and request only.
package verifharness

import (
	"encoding/json"
	"fmt"
	"sort"
	"strings"
	"testing"

	"pgregory.net/rapid"
)

type C04Case struct {
	FlowCase
	Kind     string `json:"kind"` // matching | scoring
	ArgLimit int    `json:"arg_limit,omitempty"`
	// FirstValue: rules compare against %{COLLECTION.key}, the first value stored under a (repeated) name
	FirstValue bool `json:"first_value_readers,omitempty"`
	// Neighbours: the long-lived WAF serves other requests (one of them triggers run-time exclusions) in between
	Neighbours bool `json:"neighbours,omitempty"`
	// OtherWAFs: after the first fresh WAF another WAF is created and kept open: the same rules with the collections
	// exchanged (argument collections <-> header/cookie collections), so the same selector and operator texts are
	// compiled in another context. The outcome may not depend on which WAFs were created earlier in the process.
	OtherWAFs bool `json:"other_wafs,omitempty"`
	// JSONBody: the request carries a JSON body with member names that differ only in case
	JSONBody bool `json:"json_body,omitempty"`
	// Reps: repetitions on fresh WAFs and on the long-lived one (default 6 each); witnesses of rare divergences use more
	Reps int `json:"reps,omitempty"`
}

func genC04(t *rapid.T) *C04Case {
	c := &C04Case{}
	if rapid.Bool().Draw(t, "scoring") {
		c.Kind = "scoring"
		c.FlowCase = genC09(t).FlowCase
	} else {
		c.Kind = "matching"
		c.FlowCase = genC01(t).FlowCase
	}
	// bias: many values, few distinct names, so iteration order and positions vary
	extra := rapid.IntRange(0, 6).Draw(t, "extra")
	for i := 0; i < extra; i++ {
		c.Req.Query = append(c.Req.Query, KV{rapid.SampledFrom([]string{"a", "a", "b", "A", "c"}).Draw(t, "xn"), rapid.SampledFrom(c01Values).Draw(t, "xv")})
	}
	// several rules sharing transformation prefixes over the same collection
	if rapid.Bool().Draw(t, "sharedprefix") {
		base := rapid.SliceOfN(rapid.SampledFrom(refTransNames), 1, 2).Draw(t, "prefix")
		id := 900
		n := rapid.IntRange(2, 4).Draw(t, "nshared")
		for i := 0; i < n; i++ {
			id++
			tr := append([]string(nil), base...)
			if rapid.Bool().Draw(t, "longer") {
				tr = append(tr, rapid.SampledFrom(refTransNames).Draw(t, "more"))
			}
			r := &Rule{ID: id, Phase: rapid.IntRange(1, 2).Draw(t, "sphase"), Disr: "pass", Trans: tr,
				Targets: []Target{{Var: rapid.SampledFrom([]string{"ARGS_GET", "ARGS", "ARGS_GET_NAMES"}).Draw(t, "svar")}},
				Op:      rapid.SampledFrom([]string{"contains", "rx", "streq", "unconditionalMatch"}).Draw(t, "sop"), Arg: rapid.SampledFrom([]string{"a", "x", "abc", "1"}).Draw(t, "sarg")}
			if r.Op == "unconditionalMatch" {
				r.Arg = ""
			}
			if rapid.IntRange(0, 2).Draw(t, "sexcl") == 0 {
				r.Targets = append(r.Targets, Target{Var: r.Targets[0].Var, Neg: true, Key: rapid.SampledFrom([]string{"a", "b", "A"}).Draw(t, "sxkey")})
			}
			if c.Kind == "scoring" {
				r.Acts = []string{"setvar:tx.shared=+1"}
			}
			c.RS.Items = append(c.RS.Items, Item{Rule: r})
		}
	}
	if rapid.Bool().Draw(t, "firstvalue") {
		// rules whose firing depends on WHICH value of a repeated (or case-variant) name comes first: a macro
		// naming a collection key expands to the first value stored under it
		id := 950
		for i, n := 0, rapid.IntRange(1, 3).Draw(t, "nfirst"); i < n; i++ {
			id++
			coll := rapid.SampledFrom([]string{"ARGS_GET", "ARGS", "ARGS_POST", "REQUEST_COOKIES", "REQUEST_HEADERS"}).Draw(t, "fcoll")
			key := rapid.SampledFrom([]string{"a", "b", "A", "c", "h"}).Draw(t, "fkey")
			c.RS.Items = append(c.RS.Items, Item{Rule: &Rule{ID: id, Phase: 2, Disr: "pass",
				Targets: []Target{{Var: rapid.SampledFrom([]string{"ARGS_GET", "ARGS", "REQUEST_URI"}).Draw(t, "ftarget")}},
				Op:      rapid.SampledFrom([]string{"streq", "contains", "beginsWith"}).Draw(t, "fop"), Arg: fmt.Sprintf("%%{%s.%s}", coll, key)}})
		}
		c.FirstValue = true
	}
	if rs := c.RS.Rules(); len(rs) > 0 && rapid.IntRange(0, 2).Draw(t, "neighbours") == 0 {
		// the long-lived WAF also serves OTHER requests between the repetitions; one of them makes a rule change
		// per-transaction state (a run-time target exclusion for one of the rules), which must stay in that transaction
		victim := rs[rapid.IntRange(0, len(rs)-1).Draw(t, "victim")]
		key := rapid.SampledFrom([]string{"a", "b", "A", "c", "/^a/"}).Draw(t, "exclkey")
		coll := rapid.SampledFrom([]string{"ARGS", "ARGS_GET", "REQUEST_HEADERS"}).Draw(t, "exclcoll")
		c.RS.Items = append([]Item{{Rule: &Rule{ID: 960, Phase: 1, Disr: "pass", Targets: []Target{{Var: "ARGS_GET", Key: "excl"}}, Op: "streq", Arg: "1",
			Acts: []string{fmt.Sprintf("ctl:ruleRemoveTargetById=%d;%s:%s", victim.ID, coll, key), "ctl:ruleRemoveById=" + fmt.Sprint(rs[len(rs)-1].ID)}}}}, c.RS.Items...)
		c.Neighbours = true
	}
	if rapid.IntRange(0, 2).Draw(t, "otherwafs") == 0 {
		// rules with a regular-expression selector written with capitals (the selector text means something different
		// on argument collections, whose names keep their case, than on header collections, which fold it)
		id := 980
		for i, n := 0, rapid.IntRange(1, 2).Draw(t, "nsel"); i < n; i++ {
			id++
			c.RS.Items = append(c.RS.Items, Item{Rule: &Rule{ID: id, Phase: rapid.IntRange(1, 2).Draw(t, "ophase"), Disr: "pass",
				Targets: []Target{{Var: rapid.SampledFrom([]string{"ARGS_GET", "ARGS", "ARGS_GET_NAMES", "REQUEST_HEADERS", "REQUEST_COOKIES"}).Draw(t, "ovar"),
					Rx: true, Key: rapid.SampledFrom([]string{"^A", "^[A-C]", "B$", "^Foo", "^X-", "^(?:A|b)$"}).Draw(t, "osel")}},
				Op: "unconditionalMatch"}})
		}
		c.OtherWAFs = true
	}
	if rapid.IntRange(0, 5).Draw(t, "jsonbody") == 0 {
		// a JSON body whose member names differ only in case (they meet in one case-insensitive ARGS_POST entry): which one
		// is exposed may be a loss (known finding of C03), but it may not change from run to run
		names := []string{"a", "A", "b", "B", "Ab", "aB", "ab"}
		var sb strings.Builder
		sb.WriteString("{")
		for i, n := 0, rapid.IntRange(2, 5).Draw(t, "jn"); i < n; i++ {
			if i > 0 {
				sb.WriteString(",")
			}
			k := rapid.SampledFrom(names).Draw(t, "jk")
			if rapid.IntRange(0, 3).Draw(t, "jnest") == 0 {
				fmt.Fprintf(&sb, "%q:{%q:%q,%q:%q}", k, rapid.SampledFrom(names).Draw(t, "jk1"), rapid.SampledFrom(c01Values).Draw(t, "jv1"), rapid.SampledFrom(names).Draw(t, "jk2"), rapid.SampledFrom(c01Values).Draw(t, "jv2"))
			} else {
				fmt.Fprintf(&sb, "%q:%q", k, rapid.SampledFrom(c01Values).Draw(t, "jv"))
			}
		}
		sb.WriteString("}")
		c.Req.Method, c.Req.ContentType, c.Req.Post, c.Req.RawBody = "POST", "application/json", nil, []byte(sb.String())
		if !c.Cfg.ReqBodyAccess {
			c.Cfg.ReqBodyAccess = true
			c.RS.Pre = append(c.RS.Pre, "SecRequestBodyAccess On")
		}
		c.RS.Items = append([]Item{{Line: `SecRule REQUEST_HEADERS:Content-Type "@contains json" "id:985,phase:1,pass,nolog,ctl:requestBodyProcessor=JSON"`}}, c.RS.Items...)
		c.RS.Items = append(c.RS.Items, Item{Rule: &Rule{ID: 986, Phase: 2, Disr: "pass", Targets: []Target{{Var: "ARGS_POST"}}, Op: "rx", Arg: "."}},
			Item{Rule: &Rule{ID: 987, Phase: 2, Disr: "deny", Targets: []Target{{Var: "ARGS_POST", Key: "json." + rapid.SampledFrom([]string{"a", "b", "ab"}).Draw(t, "jsel")}},
				Op: "streq", Arg: rapid.SampledFrom(c01Values[1:]).Draw(t, "jarg")}})
		c.JSONBody = true
	}
	if rapid.IntRange(0, 7).Draw(t, "orderacrossnames") == 0 {
		// a chain whose link reads TX.1 captured from a target with several values under DIFFERENT names: which value
		// is captured last follows the iteration order of the collection
		if known("C04-order-across-names") {
			statExcluded("C04-order-across-names") // known finding: excluded by construction while its witness still fails
		} else {
			c.RS.Items = append(c.RS.Items, Item{Rule: &Rule{ID: 970, Phase: 2, Disr: "pass", Capture: true, Targets: []Target{{Var: "ARGS_GET"}}, Op: "rx", Arg: "^(.)",
				Chain: []*Rule{{Targets: []Target{{Var: "TX", Key: "1"}}, Op: "streq", Arg: "a"}}}})
			c.Req.Query = append(c.Req.Query, KV{"ox", "ab"}, KV{"oy", "cd"}, KV{"oz", "ef"})
		}
	}
	if rapid.IntRange(0, 5).Draw(t, "arglimit") == 0 {
		c.ArgLimit = rapid.IntRange(1, 3).Draw(t, "limit")
		c.RS.Pre = append(c.RS.Pre, fmt.Sprintf("SecArgumentsLimit %d", c.ArgLimit))
	}
	return c
}

// c04Mirror: the rule set with argument collections and header/cookie collections exchanged in every target
func c04Mirror(rs *RuleSet) *RuleSet {
	var m RuleSet
	b, _ := json.Marshal(rs)
	_ = json.Unmarshal(b, &m)
	swap := map[string]string{"ARGS": "REQUEST_HEADERS", "REQUEST_HEADERS": "ARGS", "ARGS_GET": "REQUEST_COOKIES", "REQUEST_COOKIES": "ARGS_GET",
		"ARGS_NAMES": "REQUEST_HEADERS_NAMES", "REQUEST_HEADERS_NAMES": "ARGS_NAMES", "ARGS_GET_NAMES": "REQUEST_COOKIES_NAMES", "REQUEST_COOKIES_NAMES": "ARGS_GET_NAMES",
		"ARGS_POST": "RESPONSE_HEADERS", "ARGS_POST_NAMES": "RESPONSE_HEADERS_NAMES"}
	var walk func(r *Rule)
	walk = func(r *Rule) {
		for i := range r.Targets {
			if v, ok := swap[r.Targets[i].Var]; ok {
				r.Targets[i].Var = v
			}
		}
		for _, l := range r.Chain {
			walk(l)
		}
	}
	for _, r := range m.Rules() {
		walk(r)
	}
	return &m
}

func canonOutcome(o *Outcome) string {
	var sb strings.Builder
	fmt.Fprintf(&sb, "intr=%v\n", o.Intr)
	for _, f := range o.Fired {
		d := append([]Triple(nil), f.Data...)
		sortTriples(d)
		fmt.Fprintf(&sb, "rule %d: %q\n", f.ID, d)
	}
	var ks []string
	for k := range o.TX {
		ks = append(ks, k)
	}
	sort.Strings(ks)
	for _, k := range ks {
		fmt.Fprintf(&sb, "tx.%s=%q\n", k, o.TX[k])
	}
	fmt.Fprintf(&sb, "highest=%s errs=%v auditparts=%s\n", o.Highest, o.Errs, o.Parts)
	return sb.String()
}

func checkC04(c *C04Case) Result {
	res := Result{}
	conf := c.RS.Render()
	fresh, reused := 6, 6
	if c.Reps > 0 {
		fresh, reused = c.Reps, c.Reps
	}
	var first string
	var firstOut *Outcome
	compare := func(o *Outcome, where string) *Failure {
		s := canonOutcome(o)
		if first == "" {
			first, firstOut = s, o
			return nil
		}
		if s != first {
			return failf("outcome differs between repetitions (%s):\n--- first\n%s--- now\n%s\nconfig:\n%srequest: %s %s post=%q headers=%q", where, first, s, conf, c.Req.Method, c.Req.URI(), c.Req.Post, c.Req.AllHeaders())
		}
		return nil
	}
	for i := 0; i < fresh; i++ {
		w, err := newWAF(conf)
		if err != nil {
			res.Fail = failf("generated configuration rejected: %v\n%s", err, conf)
			return res
		}
		o, f := runCanonical(w, &c.Req)
		closeWAF(w)
		if f != nil {
			res.Fail = f
			return res
		}
		if f := compare(o, fmt.Sprintf("fresh WAF #%d", i)); f != nil {
			res.Fail = f
			return res
		}
		if c.OtherWAFs && i == 0 {
			if mw, err := newWAF(c04Mirror(&c.RS).Render()); err == nil {
				defer closeWAF(mw)
				res.Labels = append(res.Labels, "other-waf-created-in-between")
			}
		}
	}
	w, err := newWAF(conf)
	if err != nil {
		res.Fail = failf("generated configuration rejected: %v\n%s", err, conf)
		return res
	}
	defer closeWAF(w)
	for i := 0; i < reused; i++ {
		if c.Neighbours && i == reused/2 {
			// two other requests, derived from the probe: the same names with other values, and the probe plus the
			// argument that triggers the run-time exclusions
			n1, n2 := c.Req, c.Req
			n1.Query = nil
			for _, kv := range c.Req.Query {
				n1.Query = append(n1.Query, KV{kv.K, "x1"})
			}
			n2.Query = append(append([]KV(nil), c.Req.Query...), KV{"excl", "1"})
			for _, nb := range []*Req{&n1, &n2, &n2} {
				if _, f := runCanonical(w, nb); f != nil {
					res.Fail = f
					return res
				}
			}
			res.Labels = append(res.Labels, "other-requests-in-between")
		}
		o, f := runCanonical(w, &c.Req)
		if f != nil {
			res.Fail = f
			return res
		}
		if f := compare(o, fmt.Sprintf("transaction #%d on a long-lived WAF", i)); f != nil {
			res.Fail = f
			return res
		}
	}
	statExtra("transactions", int64(fresh+reused))
	// labels
	res.Labels = append(res.Labels, "kind:"+c.Kind)
	if c.FirstValue {
		res.Labels = append(res.Labels, "first-value-readers")
	}
	if c.JSONBody {
		res.Labels = append(res.Labels, "json-body-with-case-variant-names")
	}
	hasTrans := false
	for _, r := range c.RS.Rules() {
		if len(r.Trans) > 0 {
			hasTrans = true
		}
	}
	repeated := false
	cnt := map[string]int{}
	for _, kv := range c.Req.Query {
		cnt[strings.ToLower(kv.K)]++
	}
	for _, n := range cnt {
		if n >= 2 {
			repeated = true
		}
	}
	if c.ArgLimit > 0 && len(c.Req.Query) > c.ArgLimit {
		res.Labels = append(res.Labels, "argument-count-above-limit")
	}
	if repeated && len(c.Req.Query) >= 3 {
		res.Labels = append(res.Labels, ">=3-entries-with-repeated-name")
	}
	if len(firstOut.Fired) >= 2 && hasTrans && repeated && len(c.Req.Query) >= 3 {
		res.NonTrivial = true
	}
	if firstOut.Intr != nil {
		res.Labels = append(res.Labels, "interrupted")
	}
	return res
}

func TestC04(t *testing.T) {
	runProp(t, "C04", genC04, checkC04)
}

func init() {
	registerReplay("C04", func(c *C04Case) *Failure { return checkC04(c).Fail })
}
