//go:build coraza.rule.multiphase_evaluation

package verifharness

const multiphaseBuild = true
