// C15 — Built-in operators decide exactly their documented predicates.
package verifharness

import (
	"fmt"
	"net"
	"regexp"
	"rsc.io/binaryregexp"
	"strconv"
	"strings"
	"testing"
	"testing/fstest"
	"unicode/utf8"

	"github.com/corazawaf/coraza/v3/experimental/plugins/plugintypes"
	"github.com/corazawaf/coraza/v3/internal/corazawaf"
	"github.com/corazawaf/coraza/v3/internal/operators"
	"pgregory.net/rapid"
)

type C15Case struct {
	Op      string   `json:"op"`
	Arg     string   `json:"arg"`
	Input   []byte   `json:"input"`
	Capture bool     `json:"capture,omitempty"`
	Macro   bool     `json:"macro,omitempty"`   // argument passed as %{tx.k}
	Phrases []string `json:"phrases,omitempty"` // for pm family
	Form    string   `json:"form,omitempty"`    // pm | pmFromDataset | pmFromFile
	// PreFilter: @rx built with SecRxPreFilter On (the predicate is the same in either setting)
	PreFilter bool `json:"prefilter,omitempty"`
	Grammar   bool `json:"grammar,omitempty"` // pattern drawn from the regexp grammar / CRS instead of the fixed list
}

var c15WAF = corazawaf.NewWAF()

func c15Tx() *corazawaf.Transaction {
	return c15WAF.NewTransaction()
}

func flipCase(s string, i int) string {
	b := []byte(s)
	if i < len(b) {
		c := b[i]
		if c >= 'a' && c <= 'z' {
			b[i] = c - 32
		} else if c >= 'A' && c <= 'Z' {
			b[i] = c + 32
		}
	}
	return string(b)
}

var c15Words = []string{"abc", "ab", "bc", "select", "SELECT", "Sel", "x", "union all", "a", "é", "<script", "1=1", "zz", "abcabc", "É", "\u212a", "ÀB"}

// perturb derives an input around the decision boundary of (s).
func perturb(t *rapid.T, s string) string {
	switch rapid.IntRange(0, 9).Draw(t, "perturb") {
	case 0:
		return s
	case 1:
		return s + rapid.SampledFrom([]string{"x", " ", "\n", "\x00"}).Draw(t, "suffix")
	case 2:
		return rapid.SampledFrom([]string{"x", " ", "\n", "\xff"}).Draw(t, "prefix") + s
	case 3:
		if len(s) > 0 {
			return s[:len(s)-1]
		}
	case 4:
		if len(s) > 0 {
			return s[1:]
		}
	case 5:
		if len(s) > 0 {
			return flipCase(s, rapid.IntRange(0, len(s)-1).Draw(t, "flip"))
		}
	case 6:
		return "pre-" + s + "-post"
	case 7:
		if len(s) > 1 {
			i := rapid.IntRange(0, len(s)-1).Draw(t, "del")
			return s[:i] + s[i+1:]
		}
	case 8:
		return strings.ToUpper(s)
	case 9:
		return rapid.SampledFrom(c15Words).Draw(t, "other")
	}
	return s
}

func genC15(t *rapid.T) *C15Case {
	c := &C15Case{}
	kind := rapid.SampledFrom([]string{"str", "str", "num", "pm", "pm", "ip", "byterange", "urlenc", "utf8", "rx", "rx"}).Draw(t, "kind")
	switch kind {
	case "str":
		c.Op = rapid.SampledFrom([]string{"streq", "contains", "strmatch", "beginsWith", "endsWith", "within"}).Draw(t, "op")
		c.Arg = rapid.SampledFrom(c15Words).Draw(t, "arg")
		c.Macro = rapid.Bool().Draw(t, "macro")
		if c.Op == "within" {
			// the input must be found inside the argument
			c.Arg = c.Arg + " " + rapid.SampledFrom(c15Words).Draw(t, "arg2")
			in := rapid.SampledFrom(strings.Fields(c.Arg)).Draw(t, "inword")
			c.Input = []byte(perturb(t, in))
		} else {
			c.Input = []byte(perturb(t, c.Arg))
		}
	case "num":
		c.Op = rapid.SampledFrom([]string{"eq", "ge", "gt", "le", "lt"}).Draw(t, "op")
		a := rapid.IntRange(-3, 12).Draw(t, "a")
		b := a + rapid.IntRange(-1, 1).Draw(t, "delta")
		c.Arg = strconv.Itoa(a)
		c.Input = []byte(strconv.Itoa(b))
		if rapid.IntRange(0, 3).Draw(t, "bignum") == 0 {
			// operands at and beyond the ends of the integer range, and other spellings of numbers
			big := []string{"9223372036854775807", "9223372036854775808", "9223372036854775806", "9999999999999999999", "-9223372036854775808", "-9223372036854775809",
				"18446744073709551616", "99999999999999999999", "1000000000000000000", "0009", "+5", "-0", "1048576"}
			c.Input = []byte(rapid.SampledFrom(big).Draw(t, "bigin"))
			if rapid.Bool().Draw(t, "bigarg") {
				c.Arg = rapid.SampledFrom(big).Draw(t, "bigargv")
			}
		}
		c.Macro = rapid.Bool().Draw(t, "macro")
	case "pm":
		c.Form = rapid.SampledFrom([]string{"pm", "pm", "pmFromDataset", "pmFromFile"}).Draw(t, "form")
		n := rapid.IntRange(1, 8).Draw(t, "nphrases")
		pool := []string{"abc", "ABC", "ab", "bcd", "select", "Sel", "x", "xy", "union", "a", "zz", "abcd", "cd", "q", "longerphrase", "é", "1=1", "É", "\u212a", "ÀB"}
		for i := 0; i < n; i++ {
			c.Phrases = append(c.Phrases, rapid.SampledFrom(pool).Draw(t, "phrase"))
		}
		c.Op = c.Form
		c.Capture = rapid.Bool().Draw(t, "capture")
		base := rapid.SampledFrom(c.Phrases).Draw(t, "base")
		switch rapid.IntRange(0, 5).Draw(t, "shape") {
		case 0: // phrase at the very end
			c.Input = []byte(rapid.SampledFrom([]string{"", "x", "zzz ", "q"}).Draw(t, "lead") + base)
		case 1: // shorter than the shortest phrase
			min := len(base)
			for _, p := range c.Phrases {
				if len(p) < min {
					min = len(p)
				}
			}
			s := perturb(t, base)
			if min > 0 && len(s) >= min {
				s = s[:min-1]
			}
			c.Input = []byte(s)
		case 2: // several hits
			var sb strings.Builder
			k := rapid.IntRange(1, 12).Draw(t, "hits")
			for i := 0; i < k; i++ {
				sb.WriteString(rapid.SampledFrom(c.Phrases).Draw(t, "hit"))
				sb.WriteString(rapid.SampledFrom([]string{"", " ", "-"}).Draw(t, "sep"))
			}
			c.Input = []byte(sb.String())
		default:
			c.Input = []byte(perturb(t, base))
		}
	case "ip":
		c.Op = "ipMatch"
		nets := []string{"10.0.0.0/8", "192.168.1.0/24", "192.168.1.100", "172.16.0.0/12", "10.1.2.3/32", "0.0.0.0/0", "2001:db8::/32", "::1", "fe80::/10", "2001:db8::1", "1.2.3.4/31", " 8.8.8.8 ", "bogus", "300.1.1.1"}
		n := rapid.IntRange(1, 4).Draw(t, "nnets")
		var l []string
		for i := 0; i < n; i++ {
			l = append(l, rapid.SampledFrom(nets).Draw(t, "net"))
		}
		c.Arg = strings.Join(l, ",")
		ips := []string{"10.0.0.1", "10.255.255.255", "11.0.0.0", "9.255.255.255", "192.168.1.0", "192.168.1.255", "192.168.2.0", "192.168.0.255", "192.168.1.100", "192.168.1.101",
			"172.15.255.255", "172.16.0.0", "172.31.255.255", "172.32.0.0", "10.1.2.3", "10.1.2.4", "1.2.3.4", "1.2.3.5", "1.2.3.6", "8.8.8.8", "2001:db8::", "2001:db8:ffff:ffff:ffff:ffff:ffff:ffff", "2001:db9::", "::1", "::2", "fe80::1", "febf::1", "fec0::1", "2001:db8::1", "not-an-ip", "", "1.2.3", "::ffff:10.0.0.1"}
		c.Input = []byte(rapid.SampledFrom(ips).Draw(t, "ip"))
	case "byterange":
		c.Op = "validateByteRange"
		n := rapid.IntRange(1, 4).Draw(t, "nranges")
		var parts []string
		for i := 0; i < n; i++ {
			lo := rapid.SampledFrom([]int{0, 1, 9, 10, 13, 32, 65, 126, 127, 128, 254, 255}).Draw(t, "lo")
			if rapid.Bool().Draw(t, "single") {
				parts = append(parts, strconv.Itoa(lo))
			} else {
				hi := lo + rapid.SampledFrom([]int{0, 1, 5, 94, 127, 255}).Draw(t, "span")
				if hi > 255 {
					hi = 255
				}
				parts = append(parts, fmt.Sprintf("%d-%d", lo, hi))
			}
		}
		c.Arg = strings.Join(parts, rapid.SampledFrom([]string{",", ", "}).Draw(t, "sep"))
		c.Input = rapid.SliceOfN(rapid.SampledFrom([]byte{0, 1, 8, 9, 10, 11, 13, 14, 31, 32, 33, 64, 65, 66, 126, 127, 128, 129, 253, 254, 255}), 0, 6).Draw(t, "bytes")
	case "urlenc":
		c.Op = "validateUrlEncoding"
		frags := []string{"%41", "%4", "%", "%zz", "%4g", "%g4", "a", "+", "%00", "%ff", "%FF", "%%41", "abc", "%2"}
		n := rapid.IntRange(0, 4).Draw(t, "nfrag")
		var sb strings.Builder
		for i := 0; i < n; i++ {
			if rapid.IntRange(0, 3).Draw(t, "anybytes") == 0 {
				// a '%' followed by two bytes taken from the whole range: hex digits next to their neighbours in the byte
				// table ('/' ':' '@' 'G' '`' 'g'), to the same characters with one bit flipped (0x10-0x19, 0x50..), to NUL and 0xff
				near := []byte{'0', '9', 'a', 'f', 'A', 'F', '/', ':', '@', 'G', '`', 'g', 0x10, 0x11, 0x19, 0x1a, 0x21, 0x26, 0x41 ^ 0x80, 0x30 ^ 0x80, 0x00, 0xff, 'P', 'p', 0x70, 0x79}
				sb.WriteByte('%')
				for k := 0; k < 2; k++ {
					if rapid.Bool().Draw(t, "nearhex") {
						sb.WriteByte(rapid.SampledFrom(near).Draw(t, "nearb"))
					} else {
						sb.WriteByte(rapid.Byte().Draw(t, "anyb"))
					}
				}
				continue
			}
			sb.WriteString(rapid.SampledFrom(frags).Draw(t, "frag"))
		}
		c.Input = []byte(sb.String())
	case "utf8":
		c.Op = "validateUtf8Encoding"
		frags := []string{"a", "é", "\xc3", "\xa9", "\xe2\x82\xac", "\xe2\x82", "\xf0\x9f\x98\x80", "\xf0\x9f\x98", "\xc0\xaf", "\xed\xa0\x80", "\xff", "\x00", "\xf4\x90\x80\x80"}
		n := rapid.IntRange(0, 4).Draw(t, "nfrag")
		var sb strings.Builder
		for i := 0; i < n; i++ {
			sb.WriteString(rapid.SampledFrom(frags).Draw(t, "frag"))
		}
		c.Input = []byte(sb.String())
	case "rx":
		c.Op = "rx"
		pats := []string{"abc", "^abc$", "a.c", "a.*c", "(a)(b)(c)", "^(a|b)+$", "(?i)select", "sel(ect)?", "^$", "x$", "^x", "(\\d+)-(\\d+)",
			"(a)(b)(c)(d)(e)(f)(g)(h)(i)(j)", "(a)(b)(c)(d)(e)(f)(g)(h)(i)", "(a)(b)(c)(d)(e)(f)(g)(h)(i)(j)(k)(l)", "(a)|(b)", "(x)?y", "[^a]b", "a\\.b", "\\bunion\\b",
			// anchored literals, non-ASCII classes and literals (an invalid byte is one U+FFFD-wide character to RE2)
			"a.b\\xff", "^\\xfe.$", "x\\x80+$",
			"^Upload$", "(?i)^upload$", "^0$", "[^\\x00-\\x7f]", "id=[^\\x00-\\x7f]{2}", "é+", "[à-ü]x", "\\p{Greek}+", "(?i)straße", "^(?:ab|ac)d", "(?i)k+"}
		c.Arg = rapid.SampledFrom(pats).Draw(t, "pat")
		ins := []string{"abc", "ABC", "a\nc", "ac", "abcabc", "select", "SELECT * ", "sel", "", "x", "y", "xy", "ax\nx", "x\nb", "12-345", "abcdefghij", "abcdefghi", "abcdefghijkl", "a", "b", "zb", "ab", "a.b", "aXb", "a union b", "reunion",
			"a\nb\xff", "a.b\xff", "\xfe\n", "q\n\xfe\n", "x\x80\x80\nmore", "\xff", "id=\xe9\xe8", "é", "éé", "àx", "a\xffb", "αβγ", "first\nUpload", "\nUpload", "Upload\nmore", "Upload", "upload", "0", "\n0", "STRASSE", "straſe", "\u212a", "acd", "abd\n"}
		c.Input = []byte(perturb(t, rapid.SampledFrom(ins).Draw(t, "in")))
		if rapid.IntRange(0, 2).Draw(t, "grammar") == 0 {
			// pattern and input from the C11 generators (regexp/syntax grammar, bundled CRS patterns); patterns that take
			// the byte-oriented matcher (\x escapes, invalid UTF-8) are left to C11: Go's regexp is not their specification
			g := genC11(t)
			if _, err := regexp.Compile("(?sm)" + g.Pattern); err == nil && utf8.ValidString(g.Pattern) && !strings.Contains(g.Pattern, "\\x") && len(g.Inputs) > 0 {
				c.Arg = g.Pattern
				c.Input = g.Inputs[rapid.IntRange(0, len(g.Inputs)-1).Draw(t, "gin")]
				c.Grammar = true
			}
		}
		c.Capture = rapid.Bool().Draw(t, "capture")
		c.PreFilter = rapid.Bool().Draw(t, "prefilter")
	}
	if c.Form == "" && c.Op != "" && len(c.Phrases) == 0 && c.Op == "pm" {
		c.Form = "pm"
	}
	return c
}

// ---- naive definitions -------------------------------------------------------------------

func naivePMHits(phrases []string, in string) []string {
	low := asciiLower([]byte(in))
	var hits []string
	i := 0
	for i <= len(low) {
		// leftmost position >= i where some phrase matches; longest phrase there
		best, bestLen := -1, 0
		for pos := i; pos < len(low) && best == -1; pos++ {
			for _, p := range phrases {
				lp := asciiLower([]byte(p))
				if lp != "" && strings.HasPrefix(low[pos:], lp) && len(lp) > bestLen {
					best, bestLen = pos, len(lp)
				}
			}
		}
		if best == -1 {
			break
		}
		hits = append(hits, in[best:best+bestLen])
		i = best + bestLen
	}
	return hits
}

func parseV4(s string) (uint32, bool) {
	parts := strings.Split(s, ".")
	if len(parts) != 4 {
		return 0, false
	}
	var v uint32
	for _, p := range parts {
		if p == "" || len(p) > 3 || (len(p) > 1 && p[0] == '0') {
			return 0, false
		}
		n, err := strconv.Atoi(p)
		if err != nil || n < 0 || n > 255 {
			return 0, false
		}
		for _, ch := range p {
			if ch < '0' || ch > '9' {
				return 0, false
			}
		}
		v = v<<8 | uint32(n)
	}
	return v, true
}

func naiveIPMatch(list, in string) bool {
	for _, e := range strings.Split(list, ",") {
		e = strings.TrimSpace(e)
		if e == "" {
			continue
		}
		addr, mask, hasMask := strings.Cut(e, "/")
		if a4, ok := parseV4(addr); ok {
			bits := 32
			if hasMask {
				n, err := strconv.Atoi(mask)
				if err != nil || n < 0 || n > 32 {
					continue
				}
				bits = n
			}
			var in4 uint32
			var ok4 bool
			if in4, ok4 = parseV4(in); !ok4 {
				// an IPv4-mapped IPv6 input designates the same address
				if ip := net.ParseIP(in); ip != nil && ip.To4() != nil {
					b := ip.To4()
					in4, ok4 = uint32(b[0])<<24|uint32(b[1])<<16|uint32(b[2])<<8|uint32(b[3]), true
				}
			}
			if !ok4 {
				continue
			}
			var m uint32
			if bits > 0 {
				m = ^uint32(0) << (32 - bits)
			}
			if a4&m == in4&m {
				return true
			}
			continue
		}
		if strings.Contains(addr, ":") {
			if !hasMask {
				e = e + "/128"
			}
			_, n, err := net.ParseCIDR(e)
			if err != nil {
				continue
			}
			ip := net.ParseIP(in)
			if ip != nil && strings.Contains(in, ":") && n.Contains(ip) {
				return true
			}
			// an IPv4 input is never inside a pure IPv6 network (except via mapped form, handled by net)
			if ip != nil && !strings.Contains(in, ":") && n.Contains(ip) {
				return true
			}
		}
	}
	return false
}

func naiveByteRange(spec string, in []byte) bool {
	var ok [256]bool
	for _, p := range strings.Split(spec, ",") {
		p = strings.TrimSpace(p)
		lo, hi, isRange := strings.Cut(p, "-")
		a, _ := strconv.Atoi(lo)
		b := a
		if isRange {
			b, _ = strconv.Atoi(hi)
		}
		for i := a; i <= b && i < 256; i++ {
			ok[i] = true
		}
	}
	for _, c := range in {
		if !ok[c] {
			return true
		}
	}
	return false
}

func naiveURLEncodingInvalid(in []byte) bool {
	isHex := func(c byte) bool { return c >= '0' && c <= '9' || c >= 'a' && c <= 'f' || c >= 'A' && c <= 'F' }
	state := 0 // 0 outside, 1 after '%', 2 after '%X'
	for _, c := range in {
		switch state {
		case 0:
			if c == '%' {
				state = 1
			}
		case 1:
			if !isHex(c) {
				return true
			}
			state = 2
		case 2:
			if !isHex(c) {
				return true
			}
			state = 0
		}
	}
	return state != 0
}

func c15Stale(i int) string { return "left-by-an-earlier-match-" + strconv.Itoa(i) }

// pmCapturesValid is a validity predicate rather than one expected answer: the matcher may or
// may not report overlapping occurrences (undocumented). Required: TX.0 is the leftmost-longest
// first hit; the captured texts are occurrences of listed phrases at strictly increasing start
// offsets; at least min(10, number of non-overlapping hits) are stored; the rest of TX.0-9 is empty.
func pmCapturesValid(phrases []string, in string, got []string, nonOverlap []string) string {
	n := 0
	for n < len(got) && got[n] != "" {
		n++
	}
	for i := n; i < len(got); i++ {
		if got[i] != "" {
			return fmt.Sprintf("TX.%d is set after an empty TX.%d", i, n)
		}
	}
	if n == 0 {
		return "nothing captured"
	}
	if got[0] != nonOverlap[0] {
		return fmt.Sprintf("TX.0 = %q is not the leftmost-longest hit %q", got[0], nonOverlap[0])
	}
	need := len(nonOverlap)
	if need > 10 {
		need = 10
	}
	if n < need {
		return fmt.Sprintf("%d hits stored, at least %d expected", n, need)
	}
	low := asciiLower([]byte(in))
	pos := 0
	for i := 0; i < n; i++ {
		isPhrase := false
		for _, p := range phrases {
			if asciiLower([]byte(p)) == asciiLower([]byte(got[i])) && p != "" {
				isPhrase = true
			}
		}
		if !isPhrase {
			return fmt.Sprintf("TX.%d = %q is not a listed phrase", i, got[i])
		}
		j := strings.Index(low[pos:], asciiLower([]byte(got[i])))
		if j < 0 || in[pos+j:pos+j+len(got[i])] != got[i] {
			// try later occurrences with the exact original spelling
			found := false
			for k := pos; k+len(got[i]) <= len(in); k++ {
				if in[k:k+len(got[i])] == got[i] {
					pos = k + 1
					found = true
					break
				}
			}
			if !found {
				return fmt.Sprintf("TX.%d = %q does not occur in the input at or after offset %d", i, got[i], pos)
			}
			continue
		}
		pos = pos + j + 1
	}
	return ""
}

func c15Expected(c *C15Case) (match bool, caps []string, hasCaps bool) {
	in := string(c.Input)
	switch c.Op {
	case "streq":
		return in == c.Arg, nil, false
	case "contains", "strmatch":
		return strings.Contains(in, c.Arg), nil, false
	case "beginsWith":
		return strings.HasPrefix(in, c.Arg), nil, false
	case "endsWith":
		return strings.HasSuffix(in, c.Arg), nil, false
	case "within":
		return strings.Contains(c.Arg, in), nil, false
	case "eq", "ge", "gt", "le", "lt":
		a, _ := strconv.Atoi(c.Arg)
		b, _ := strconv.Atoi(in)
		switch c.Op {
		case "eq":
			return b == a, nil, false
		case "ge":
			return b >= a, nil, false
		case "gt":
			return b > a, nil, false
		case "le":
			return b <= a, nil, false
		default:
			return b < a, nil, false
		}
	case "pm", "pmFromDataset", "pmFromFile":
		hits := naivePMHits(c.Phrases, in)
		if len(hits) > 10 {
			hits = hits[:10]
		}
		return len(hits) > 0, hits, true
	case "ipMatch":
		return naiveIPMatch(c.Arg, in), nil, false
	case "validateByteRange":
		return naiveByteRange(c.Arg, c.Input), nil, false
	case "validateUrlEncoding":
		return naiveURLEncodingInvalid(c.Input), nil, false
	case "validateUtf8Encoding":
		return !utf8.Valid(c.Input), nil, false
	case "rx":
		if patternNamesRawBytes(c.Arg) {
			// byte escapes: the pattern is matched byte-wise; the flags (dot matches newline, multi-line anchors) are the same
			bre := binaryregexp.MustCompile("(?sm)" + c.Arg)
			m := bre.FindStringSubmatch(in)
			if m == nil {
				return false, nil, true
			}
			if len(m) > 10 {
				m = m[:10]
			}
			return true, m, true
		}
		re := regexp.MustCompile("(?sm)" + c.Arg)
		m := re.FindStringSubmatch(in)
		if m == nil {
			return false, nil, true
		}
		if len(m) > 10 {
			m = m[:10]
		}
		return true, m, true
	}
	panic("unmodelled operator " + c.Op)
}

// patternNamesRawBytes: with its \xHH escapes decoded the pattern is not valid UTF-8, i.e. it names bytes that no
// character has (rx.go: "Use binary regex matcher if expression matches non-utf8 bytes").
func patternNamesRawBytes(p string) bool {
	var b []byte
	for i := 0; i < len(p); i++ {
		if p[i] == '\\' && i+3 < len(p) && p[i+1] == 'x' {
			if v, err := strconv.ParseUint(p[i+2:i+4], 16, 8); err == nil {
				b = append(b, byte(v))
				i += 3
				continue
			}
		}
		b = append(b, p[i])
	}
	return !utf8.Valid(b)
}

func c15Build(c *C15Case, tx *corazawaf.Transaction) (plugintypes.Operator, error) {
	opts := plugintypes.OperatorOptions{Arguments: c.Arg, RxPreFilterEnabled: c.PreFilter}
	if c.Macro {
		tx.Variables().TX().Set("k", []string{c.Arg})
		opts.Arguments = "%{tx.k}"
	}
	switch c.Op {
	case "pm":
		opts.Arguments = strings.Join(c.Phrases, " ")
	case "pmFromDataset":
		opts.Arguments = "ds"
		opts.Datasets = map[string][]string{"ds": c.Phrases}
	case "pmFromFile":
		opts.Arguments = "phrases.data"
		opts.Path = []string{"conf"}
		opts.Root = fstest.MapFS{"conf/phrases.data": &fstest.MapFile{Data: []byte("# comment\n" + strings.Join(c.Phrases, "\n") + "\n\n")}}
	}
	return operators.Get(c.Op, opts)
}

func checkC15(c *C15Case) Result {
	res := Result{}
	tx := c15Tx()
	defer tx.Close()
	var op plugintypes.Operator
	var err error
	if f := guard("operator construction", func() { op, err = c15Build(c, tx) }); f != nil {
		res.Fail = f
		return res
	}
	if err != nil {
		res.Fail = failf("@%s %q rejected: %v", c.Op, c.Arg, err)
		return res
	}
	want, wantCaps, hasCaps := c15Expected(c)
	tx.Capture = c.Capture
	// TX.0-9 hold what an earlier capturing evaluation left there: a group of this pattern, taking part in the match or
	// not, has to replace it with its own text (indexes beyond the pattern's groups are not claimed either way)
	for i := 0; i <= 9; i++ {
		tx.Variables().TX().Set(strconv.Itoa(i), []string{c15Stale(i)})
	}
	var got bool
	if f := guard("@"+c.Op, func() { got = op.Evaluate(tx, string(c.Input)) }); f != nil {
		res.Fail = f
		return res
	}
	if got != want {
		res.Fail = failf("@%s arg %q phrases %q on input %q: operator says %v, the documented predicate says %v", c.Op, c.Arg, c.Phrases, c.Input, got, want)
		return res
	}
	if c.Capture && hasCaps && want {
		var gotCaps []string
		for i := 0; i <= 9; i++ {
			gotv := ""
			if vs := tx.Variables().TX().Get(strconv.Itoa(i)); len(vs) > 0 {
				gotv = vs[0]
			}
			gotCaps = append(gotCaps, gotv)
		}
		if c.Op != "rx" {
			for i := range gotCaps {
				if gotCaps[i] == c15Stale(i) {
					gotCaps[i] = "" // not stored
				}
			}
		}
		if c.Op == "rx" {
			for i := 0; i <= 9; i++ {
				exp := ""
				if i < len(wantCaps) {
					exp = wantCaps[i]
				} else if gotCaps[i] == c15Stale(i) {
					continue // beyond the groups of this pattern: left alone
				}
				if gotCaps[i] != exp {
					res.Fail = failf("@rx %q on input %q with capture: TX.%d = %q, expected %q (all expected: %q)", c.Arg, c.Input, i, gotCaps[i], exp, wantCaps)
					return res
				}
			}
		} else if msg := pmCapturesValid(c.Phrases, string(c.Input), gotCaps, wantCaps); msg != "" {
			res.Fail = failf("@%s phrases %q on input %q with capture: %s (TX.0-9 = %q, leftmost-longest non-overlapping hits %q)", c.Op, c.Phrases, c.Input, msg, gotCaps, wantCaps)
			return res
		}
		if len(wantCaps) >= 10 {
			res.Labels = append(res.Labels, "capture-10-groups")
		}
		res.Labels = append(res.Labels, "capture-checked")
		if c.Op == "rx" && !patternNamesRawBytes(c.Arg) {
			if ix := regexp.MustCompile("(?sm)" + c.Arg).FindStringSubmatchIndex(string(c.Input)); ix != nil {
				for g := 1; g < len(ix)/2 && g <= 9; g++ {
					if ix[2*g] < 0 {
						res.Labels = append(res.Labels, "capture-group-outside-the-match")
						break
					}
				}
			}
		}
	}
	res.Labels = append(res.Labels, "op:"+c.Op)
	if c.PreFilter {
		res.Labels = append(res.Labels, "rx-with-prefilter")
	}
	if c.Grammar {
		res.Labels = append(res.Labels, "rx-grammar-pattern")
	}
	if want {
		res.Labels = append(res.Labels, "match:"+c.Op)
	} else {
		res.Labels = append(res.Labels, "nomatch:"+c.Op)
	}
	if c.Macro {
		res.Labels = append(res.Labels, "macro-argument")
	}
	res.NonTrivial = true
	res.Key = []byte(fmt.Sprintf("%s\x00%s\x00%q\x00%s\x00%v%v", c.Op, c.Arg, c.Phrases, c.Input, c.Capture, c.Macro))
	return res
}

func TestC15Direct(t *testing.T) {
	runProp(t, "C15", genC15, checkC15)
}

// ---- through a real rule: '!' is the exact complement, TX.0-9 copied out -----------------------

func checkC15Rule(c *C15Case) Result {
	res := Result{}
	want, _, _ := c15Expected(c)
	arg := c.Arg
	pre := ""
	opName := c.Op
	switch c.Op {
	case "pm":
		arg = strings.Join(c.Phrases, " ")
	case "pmFromDataset", "pmFromFile":
		opName = "pmFromDataset"
		arg = "ds"
		pre = "SecDataset ds `\n" + strings.Join(c.Phrases, "\n") + "\n`\n"
	}
	if c.PreFilter {
		pre = "SecRxPreFilter On\n" + pre
	}
	if !safeArg(arg) && arg != "" {
		res.Labels = append(res.Labels, "skipped-unquotable-argument")
		return res
	}
	for _, p := range c.Phrases {
		if !safeArg(p) {
			res.Labels = append(res.Labels, "skipped-unquotable-argument")
			return res
		}
	}
	// a sibling rule in the same WAF with another list under another name: the same text cut at other phrase
	// boundaries. Each rule decides membership of its own list.
	var sib []string
	sibRule := ""
	if opName == "pmFromDataset" {
		joined := strings.Join(c.Phrases, "")
		switch {
		case len(c.Phrases) >= 2:
			sib = []string{joined}
		case len(joined) >= 2:
			sib = []string{joined[:len(joined)/2], joined[len(joined)/2:]}
		}
		for _, p := range sib {
			if p == "" || p != strings.TrimSpace(p) || strings.HasPrefix(p, "#") || !safeArg(p) || !isASCII([]byte(p)) {
				sib = nil
				break
			}
		}
		if sib != nil {
			pre += "SecDataset sib `\n" + strings.Join(sib, "\n") + "\n`\n"
			sibRule = "\nSecRule REQUEST_HEADERS:x \"@pmFromDataset sib\" \"id:2,phase:1,pass,t:none\""
		}
	}
	for _, neg := range []bool{false, true} {
		n := ""
		if neg {
			n = "!"
		}
		conf := pre + fmt.Sprintf("SecRule REQUEST_HEADERS:x \"%s@%s %s\" \"id:1,phase:1,pass,t:none\"", n, opName, arg) + sibRule
		w, err := newWAF(conf)
		if err != nil {
			res.Fail = failf("configuration rejected: %v\n%s", err, conf)
			return res
		}
		fired, firedSib := false, false
		f := guard("rule", func() {
			tx := w.NewTransaction()
			tx.AddRequestHeader("x", string(c.Input))
			tx.ProcessRequestHeaders()
			for _, mr := range tx.MatchedRules() {
				switch mr.Rule().ID() {
				case 1:
					fired = true
				case 2:
					firedSib = true
				}
			}
			tx.ProcessLogging()
			_ = tx.Close()
		})
		closeWAF(w)
		if f != nil {
			res.Fail = f
			return res
		}
		if fired != (want != neg) {
			res.Fail = failf("%s on header value %q: rule fired=%v, predicate=%v negated=%v", conf, c.Input, fired, want, neg)
			return res
		}
		if sib != nil {
			if wantSib := len(naivePMHits(sib, string(c.Input))) > 0; firedSib != wantSib {
				res.Fail = failf("%s on header value %q: sibling rule 2 (list %q) fired=%v, its own list says %v", conf, c.Input, sib, firedSib, wantSib)
				return res
			}
			res.Labels = append(res.Labels, "sibling-list-other-boundaries")
		}
	}
	res.NonTrivial = true
	res.Labels = append(res.Labels, "rule-level:"+c.Op)
	return res
}

func TestC15Rule(t *testing.T) {
	runProp(t, "C15R", genC15, checkC15Rule)
}

func init() {
	registerReplay("C15", func(c *C15Case) *Failure { return checkC15(c).Fail })
	registerReplay("C15R", func(c *C15Case) *Failure { return checkC15Rule(c).Fail })
}
