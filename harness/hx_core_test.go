// Shared machinery of the verification harness: statistics, labels, failure
// recording, replay dispatch, known-finding switches.
package verifharness

import (
	"bytes"
	"encoding/json"
	"fmt"
	"hash/fnv"
	"os"
	"path/filepath"
	"runtime/debug"
	"sort"
	"strings"
	"sync"
	"testing"
	"unicode"

	"pgregory.net/rapid"
)

// ---------------------------------------------------------------------------------------
// statistics

const maxHashes = 3_000_000

type statsT struct {
	mu          sync.Mutex
	Evaluations int64
	NonTrivial  map[uint64]struct{}
	NTOverflow  int64
	Labels      map[string]int64
	Samples     []json.RawMessage
	Excluded    map[string]int64
	Extra       map[string]int64
}

var stats = &statsT{
	NonTrivial: map[uint64]struct{}{},
	Labels:     map[string]int64{},
	Excluded:   map[string]int64{},
	Extra:      map[string]int64{},
}

const maxSamples = 8

func hash64(b []byte) uint64 {
	h := fnv.New64a()
	_, _ = h.Write(b)
	return h.Sum64()
}

func statEval(n int64) {
	stats.mu.Lock()
	stats.Evaluations += n
	stats.mu.Unlock()
}

func statLabel(l string) {
	stats.mu.Lock()
	stats.Labels[l]++
	stats.mu.Unlock()
}

func statLabels(ls []string) {
	stats.mu.Lock()
	for _, l := range ls {
		stats.Labels[l]++
	}
	stats.mu.Unlock()
}

func statExtra(k string, n int64) {
	stats.mu.Lock()
	stats.Extra[k] += n
	stats.mu.Unlock()
}

func statExcluded(class string) {
	stats.mu.Lock()
	stats.Excluded[class]++
	stats.mu.Unlock()
}

// statNonTrivial records a non-trivial case by the hash of its canonical encoding and keeps
// the first few as samples. sample may be nil (then key is used as the sample text).
func statNonTrivial(key []byte, sample any) {
	h := hash64(key)
	stats.mu.Lock()
	defer stats.mu.Unlock()
	if _, ok := stats.NonTrivial[h]; ok {
		return
	}
	if len(stats.NonTrivial) >= maxHashes {
		stats.NTOverflow++
		return
	}
	stats.NonTrivial[h] = struct{}{}
	if len(stats.Samples) < maxSamples {
		var raw []byte
		if sample != nil {
			raw, _ = json.Marshal(sample)
		} else {
			raw, _ = json.Marshal(string(key))
		}
		if len(raw) < 6000 {
			stats.Samples = append(stats.Samples, raw)
		}
	}
}

func writeStats() {
	path := os.Getenv("VERIF_STATS")
	if path == "" {
		return
	}
	path = strings.ReplaceAll(path, "%p", fmt.Sprint(os.Getpid()))
	stats.mu.Lock()
	defer stats.mu.Unlock()
	hs := make([]string, 0, len(stats.NonTrivial))
	for h := range stats.NonTrivial {
		hs = append(hs, fmt.Sprintf("%x", h))
	}
	sort.Strings(hs)
	out := map[string]any{
		"evaluations": stats.Evaluations,
		"hashes":      hs,
		"nt_overflow": stats.NTOverflow,
		"labels":      stats.Labels,
		"samples":     stats.Samples,
		"excluded":    stats.Excluded,
		"extra":       stats.Extra,
	}
	b, _ := json.Marshal(out)
	_ = os.WriteFile(path, b, 0o644)
}

// ---------------------------------------------------------------------------------------
// failures and replay

// Failure describes one violation of a property.
type Failure struct {
	Msg string
	// Site is a stable identifier of the root cause when the oracle can name one
	// (e.g. the first coraza frame of a panic).
	Site string
}

func failf(format string, args ...any) *Failure {
	return &Failure{Msg: fmt.Sprintf(format, args...)}
}

type replayFile struct {
	Property string          `json:"property"`
	Message  string          `json:"message,omitempty"`
	Site     string          `json:"site,omitempty"`
	Case     json.RawMessage `json:"case"`
}

// recordFailure writes the failing case (the last write wins: rapid re-runs the minimal
// case last, so the file on disk is the shrunk one).
func recordFailure(prop string, c any, f *Failure) {
	dir := os.Getenv("VERIF_FAILDIR")
	if dir == "" {
		return
	}
	raw, err := json.Marshal(c)
	if err != nil {
		raw, _ = json.Marshal(fmt.Sprintf("%#v", c))
	}
	b, _ := json.MarshalIndent(replayFile{Property: prop, Message: f.Msg, Site: f.Site, Case: raw}, "", " ")
	_ = os.MkdirAll(dir, 0o755)
	_ = os.WriteFile(filepath.Join(dir, prop+".json"), b, 0o644)
}

func recordFailureTo(path, prop string, c any, f *Failure) {
	if path == "" {
		return
	}
	raw, _ := json.Marshal(c)
	b, _ := json.MarshalIndent(replayFile{Property: prop, Message: f.Msg, Site: f.Site, Case: raw}, "", " ")
	_ = os.WriteFile(path, b, 0o644)
}

// replayFns maps a property id to a function that decodes a case and checks it.
var replayFns = map[string]func(raw json.RawMessage) *Failure{}

func registerReplay[C any](prop string, check func(*C) *Failure) {
	replayFns[prop] = func(raw json.RawMessage) *Failure {
		var c C
		if err := json.Unmarshal(raw, &c); err != nil {
			return failf("cannot decode case: %v", err)
		}
		return check(&c)
	}
}

// TestReplay runs one replay file through the plain check function, bypassing rapid.
func TestReplay(t *testing.T) {
	path := os.Getenv("VERIF_REPLAY")
	if path == "" {
		t.Skip("VERIF_REPLAY not set")
	}
	b, err := os.ReadFile(path)
	if err != nil {
		t.Fatalf("read replay: %v", err)
	}
	var rf replayFile
	if err := json.Unmarshal(b, &rf); err != nil {
		t.Fatalf("decode replay: %v", err)
	}
	fn := replayFns[rf.Property]
	if fn == nil {
		t.Fatalf("no replay function for %s", rf.Property)
	}
	if f := fn(rf.Case); f != nil {
		fmt.Printf("REPLAY-FAIL property=%s site=%s :: %s\n", rf.Property, f.Site, oneLine(f.Msg))
		t.Fatalf("replay failed: %s", f.Msg)
	}
	fmt.Printf("REPLAY-PASS property=%s\n", rf.Property)
}

func oneLine(s string) string {
	s = strings.ReplaceAll(s, "\n", " | ")
	if len(s) > 600 {
		s = s[:600] + "..."
	}
	return s
}

// runProp is the common rapid driver: generate, check, account, record.
type Result struct {
	Fail       *Failure
	NonTrivial bool
	Labels     []string
	Key        []byte // optional cheap identity of the case; JSON of the case when nil
}

func runProp[C any](t *testing.T, prop string, gen func(*rapid.T) *C, check func(*C) Result) {
	rapid.Check(t, propFunc(prop, gen, check))
}

// fuzzProp runs the same property under Go's native coverage-guided fuzzer: the fuzzer's bytes
// drive the rapid generators (rapid.MakeFuzz), so a crasher is again a structured case that is
// written out as an ordinary replay file.
func fuzzProp[C any](f *testing.F, prop string, gen func(*rapid.T) *C, check func(*C) Result) {
	f.Add([]byte{})
	f.Add([]byte{0x01, 0x02, 0x03, 0x04, 0x05, 0x06, 0x07, 0x08})
	f.Add([]byte("\xff\xfe\x00\x10 seed bytes for the generator \x7f\x80\x81"))
	f.Add(bytes.Repeat([]byte{0xa5, 0x5a, 0x3c}, 40))
	f.Fuzz(rapid.MakeFuzz(propFunc(prop, gen, check)))
}

func propFunc[C any](prop string, gen func(*rapid.T) *C, check func(*C) Result) func(*rapid.T) {
	return func(rt *rapid.T) {
		c := gen(rt)
		res := check(c)
		statEval(1)
		statLabels(res.Labels)
		if res.Fail != nil {
			recordFailure(prop, c, res.Fail)
			rt.Fatalf("%s", res.Fail.Msg)
		}
		if res.NonTrivial {
			key := res.Key
			if key == nil {
				key, _ = json.Marshal(c)
			}
			statNonTrivial(key, c)
		}
	}
}

// ---------------------------------------------------------------------------------------
// known findings: the driver passes the keys of the findings whose witness still fails.

var knownActive = map[string]bool{}

func init() {
	for _, k := range strings.Split(os.Getenv("VERIF_KNOWN"), ",") {
		if k = strings.TrimSpace(k); k != "" {
			knownActive[k] = true
		}
	}
}

func known(key string) bool { return knownActive[key] }

// ---------------------------------------------------------------------------------------
// panic capture

// guard runs f and converts a panic into a Failure whose Site is the first coraza frame.
func guard(what string, f func()) (fail *Failure) {
	defer func() {
		if r := recover(); r != nil {
			st := string(debug.Stack())
			fail = &Failure{Msg: fmt.Sprintf("panic in %s: %v\n%s", what, r, trimStack(st)), Site: panicSite(st)}
		}
	}()
	f()
	return nil
}

func panicSite(stack string) string {
	lines := strings.Split(stack, "\n")
	seenPanic := false
	for i := 0; i < len(lines); i++ {
		l := lines[i]
		if strings.HasPrefix(l, "panic(") {
			seenPanic = true
			continue
		}
		if !seenPanic {
			continue
		}
		if strings.Contains(l, "github.com/corazawaf/coraza/v3") && !strings.Contains(l, "verifharness") {
			fn := l
			if j := strings.LastIndex(fn, "("); j > 0 {
				fn = fn[:j]
			}
			fn = strings.TrimPrefix(fn, "github.com/corazawaf/coraza/v3/")
			return fn
		}
	}
	return "unknown"
}

func trimStack(st string) string {
	lines := strings.Split(st, "\n")
	if len(lines) > 40 {
		lines = lines[:40]
	}
	return strings.Join(lines, "\n")
}

// privateTmp is this process' own temporary directory (TMPDIR points at it), so spill files and
// uploads created by the code under test never land in the shared /tmp and can be listed.
var privateTmp string

func TestMain(m *testing.M) {
	base := filepath.Join(workDir(), "tmp")
	_ = os.MkdirAll(base, 0o755)
	if d, err := os.MkdirTemp(base, "p"); err == nil {
		privateTmp = d
		_ = os.Setenv("TMPDIR", d)
		// relative paths in generated configurations (e.g. the default concurrent audit-log directory)
		// land in the private directory; the coordinator of a native fuzzing campaign needs the package directory
		// for its corpus, its workers (which execute the inputs) do not
		fuzzing := false
		for _, a := range os.Args {
			if strings.HasPrefix(a, "-test.fuzz") {
				fuzzing = true
			}
		}
		for _, a := range os.Args {
			if strings.HasPrefix(a, "-test.fuzzworker") {
				fuzzing = false
			}
		}
		if !fuzzing {
			_ = os.Chdir(d)
		}
	}
	code := m.Run()
	writeStats()
	if privateTmp != "" {
		_ = os.RemoveAll(privateTmp)
	}
	os.Exit(code)
}

func sortStrings(l []string) { sort.Strings(l) }

func simpleFold(r rune) rune { return unicode.SimpleFold(r) }

func jsonMarshal(v any) ([]byte, error) { return json.Marshal(v) }
