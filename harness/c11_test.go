// C11 — SecRxPreFilter never changes what @rx matches or captures.
package verifharness

import (
	"fmt"
	"io/fs"
	"reflect"
	"regexp"
	"regexp/syntax"
	"sort"
	"strconv"
	"strings"
	"sync"
	"testing"
	"unicode/utf8"
	"unsafe"

	coreruleset "github.com/corazawaf/coraza-coreruleset"
	"github.com/corazawaf/coraza/v3/experimental/plugins/plugintypes"
	"github.com/corazawaf/coraza/v3/internal/corazawaf"
	"github.com/corazawaf/coraza/v3/internal/operators"
	"github.com/corazawaf/coraza/v3/internal/seclang"
	"pgregory.net/rapid"
)

type C11Case struct {
	Pattern string   `json:"pattern"`
	Inputs  [][]byte `json:"inputs"`
	Source  string   `json:"source,omitempty"` // generated | crs
}

// ---- pattern generator -----------------------------------------------------------------------

var c11Lits = []string{"select", "union", "foo", "fob", "fox", "a", "ab", "abc", "Sel", "SELECT", "sleep", "(", "or", "and", "=", "é", "ſ", "K", "k", "s", "admin", "x", "/etc/passwd", "<script", "on", "1"}
var c11Classes = []string{"[a-c]", "\\d", "\\s", "\\w", ".", "[^a]", "[a-z0-9]", "\\W", "[[:alpha:]]", "[é-ü]", "\\S", "[\\s\\S]",
	// classes without any one-byte member except through U+FFFD (which is how RE2 sees an invalid byte)
	"[^\\x00-\\x7F]", "[\\x{80}-\\x{10FFFF}]", "[^[:ascii:]]", "\\P{Latin}", "[^\\x00-\\x{7FF}]", "[\\x{FFFD}é]"}

func genRxNode(t *rapid.T, depth int) string {
	max := 9
	if depth >= 3 {
		max = 2
	}
	switch rapid.IntRange(0, max).Draw(t, "node") {
	case 0, 1:
		l := rapid.SampledFrom(c11Lits).Draw(t, "lit")
		if rapid.IntRange(0, 9).Draw(t, "hexlit") == 0 {
			r, _ := utf8.DecodeRuneInString(l)
			return fmt.Sprintf("\\x{%x}", r)
		}
		return regexp.QuoteMeta(l)
	case 2:
		return rapid.SampledFrom(c11Classes).Draw(t, "class")
	case 3, 4: // concat
		n := rapid.IntRange(2, 4).Draw(t, "nconcat")
		var sb strings.Builder
		for i := 0; i < n; i++ {
			sb.WriteString(genRxNode(t, depth+1))
		}
		return sb.String()
	case 5, 6: // alternation, often with shared prefixes
		n := rapid.IntRange(2, 4).Draw(t, "nalt")
		var parts []string
		if rapid.Bool().Draw(t, "sharedprefix") {
			pre := rapid.SampledFrom([]string{"fo", "sel", "a", "un", "ad"}).Draw(t, "pre")
			for i := 0; i < n; i++ {
				parts = append(parts, pre+rapid.SampledFrom([]string{"o", "b", "x", "ect", "ion", "min", "", "d"}).Draw(t, "tail"))
			}
		} else {
			for i := 0; i < n; i++ {
				parts = append(parts, genRxNode(t, depth+1))
			}
		}
		open := rapid.SampledFrom([]string{"(?:", "("}).Draw(t, "grp")
		return open + strings.Join(parts, "|") + ")"
	case 7: // quantified group
		q := rapid.SampledFrom([]string{"?", "*", "+", "{2}", "{1,3}", "{0,2}", "??", "*?", "+?", "{2,}"}).Draw(t, "quant")
		return "(?:" + genRxNode(t, depth+1) + ")" + q
	case 8: // capture
		return "(" + genRxNode(t, depth+1) + ")"
	default: // scoped flags or inner anchors
		switch rapid.IntRange(0, 5).Draw(t, "misc") {
		case 0:
			return "(?i:" + genRxNode(t, depth+1) + ")"
		case 1:
			return "(?-i:" + genRxNode(t, depth+1) + ")"
		case 2:
			return "\\b" + genRxNode(t, depth+1)
		case 3:
			return genRxNode(t, depth+1) + "\\b"
		case 4:
			return "(?-s:.)" + genRxNode(t, depth+1)
		default:
			return "(?:^|;)" + genRxNode(t, depth+1)
		}
	}
}

func genRxPattern(t *rapid.T) string {
	var sb strings.Builder
	if rapid.IntRange(0, 2).Draw(t, "ci") == 0 {
		sb.WriteString("(?i)")
	}
	sb.WriteString(rapid.SampledFrom([]string{"", "", "", "^", "\\A", "^", "(?:^|x)", "^.*", "\\A.*"}).Draw(t, "begin"))
	sb.WriteString(genRxNode(t, 0))
	sb.WriteString(rapid.SampledFrom([]string{"", "", "", "$", "\\z", "$", ".*$", ".*\\z", "(?:$|x)"}).Draw(t, "end"))
	return sb.String()
}

// ---- sample strings by walking the regexp/syntax tree ------------------------------------------

func sampleRegexp(t *rapid.T, re *syntax.Regexp, depth int) string {
	switch re.Op {
	case syntax.OpLiteral:
		var sb strings.Builder
		for _, r := range re.Rune {
			if re.Flags&syntax.FoldCase != 0 && rapid.IntRange(0, 2).Draw(t, "fold") == 0 {
				// another member of the fold orbit
				r = nextFold(r, rapid.IntRange(1, 3).Draw(t, "orbit"))
			}
			sb.WriteRune(r)
		}
		return sb.String()
	case syntax.OpCharClass:
		if len(re.Rune) == 0 {
			return ""
		}
		i := rapid.IntRange(0, len(re.Rune)/2-1).Draw(t, "range")
		lo, hi := re.Rune[2*i], re.Rune[2*i+1]
		if hi > lo+40 {
			hi = lo + 40
		}
		return string(rune(rapid.IntRange(int(lo), int(hi)).Draw(t, "rune")))
	case syntax.OpAnyChar:
		return rapid.SampledFrom([]string{"x", "\n", " ", "é", "Z"}).Draw(t, "any")
	case syntax.OpAnyCharNotNL:
		return rapid.SampledFrom([]string{"x", " ", "é", "Z"}).Draw(t, "anynl")
	case syntax.OpCapture, syntax.OpPlus:
		s := sampleRegexp(t, re.Sub[0], depth+1)
		if re.Op == syntax.OpPlus && rapid.Bool().Draw(t, "plusmore") {
			s += sampleRegexp(t, re.Sub[0], depth+1)
		}
		return s
	case syntax.OpStar, syntax.OpQuest:
		if rapid.Bool().Draw(t, "opt") {
			return sampleRegexp(t, re.Sub[0], depth+1)
		}
		return ""
	case syntax.OpRepeat:
		n := re.Min
		if re.Max != re.Min && rapid.Bool().Draw(t, "repmore") {
			n++
		}
		var sb strings.Builder
		for i := 0; i < n && i < 5; i++ {
			sb.WriteString(sampleRegexp(t, re.Sub[0], depth+1))
		}
		return sb.String()
	case syntax.OpConcat:
		var sb strings.Builder
		for _, s := range re.Sub {
			sb.WriteString(sampleRegexp(t, s, depth+1))
		}
		return sb.String()
	case syntax.OpAlternate:
		return sampleRegexp(t, re.Sub[rapid.IntRange(0, len(re.Sub)-1).Draw(t, "alt")], depth+1)
	}
	return "" // anchors, empty match, word boundaries
}

func nextFold(r rune, n int) rune {
	for i := 0; i < n; i++ {
		r = simpleFold(r)
	}
	return r
}

func genRxInputs(t *rapid.T, pattern string) [][]byte {
	var inputs [][]byte
	re, err := syntax.Parse("(?sm)"+pattern, syntax.Perl)
	n := rapid.IntRange(3, 8).Draw(t, "ninputs")
	for i := 0; i < n; i++ {
		s := ""
		if err == nil {
			s = sampleRegexp(t, re, 0)
		}
		switch rapid.IntRange(0, 12).Draw(t, "mut") {
		case 0, 1, 2: // as sampled: intended match
		case 3:
			if len(s) > 0 {
				j := rapid.IntRange(0, len(s)-1).Draw(t, "del")
				s = s[:j] + s[j+1:]
			}
		case 4:
			if len(s) > 0 {
				j := rapid.IntRange(0, len(s)-1).Draw(t, "sub")
				s = s[:j] + string(rapid.SampledFrom([]byte{'x', 'X', ' ', '\n', 0xff, 'e'}).Draw(t, "subb")) + s[j+1:]
			}
		case 5:
			if len(s) > 0 {
				s = flipCase(s, rapid.IntRange(0, len(s)-1).Draw(t, "flip"))
			}
		case 6:
			s = strings.NewReplacer("s", "ſ", "k", "K", "S", "ſ", "K", "K").Replace(s)
		case 7:
			if len(s) > 0 {
				j := rapid.IntRange(0, len(s)).Draw(t, "nl")
				s = s[:j] + "\n" + s[j:]
			} else {
				s = "\n"
			}
		case 8:
			s = rapid.SampledFrom([]string{"x", "fob;", "\n", "zz ", "é"}).Draw(t, "pre") + s
		case 9:
			s = s + rapid.SampledFrom([]string{"x", ";fob", "\n", " zz", "é"}).Draw(t, "post")
		case 10:
			s = string(rapid.SliceOfN(rapid.Byte(), 0, 12).Draw(t, "rand"))
		case 11:
			s = strings.ToUpper(s)
		case 12:
			// every non-ASCII character as one raw byte (Latin-1 style): invalid UTF-8 that RE2 reads as U+FFFD
			var b []byte
			for _, r := range s {
				switch {
				case r < 0x80:
					b = append(b, byte(r))
				case r < 0x100:
					b = append(b, byte(r))
				default:
					b = append(b, 0xff)
				}
			}
			s = string(b)
		}
		inputs = append(inputs, []byte(s))
	}
	return inputs
}

// ---- CRS patterns --------------------------------------------------------------------------------

var crsOnce sync.Once
var crsPatterns []string

func readUnexportedString(v reflect.Value, field string) string {
	f := v.FieldByName(field)
	if !f.IsValid() {
		return ""
	}
	return reflect.NewAt(f.Type(), unsafe.Pointer(f.UnsafeAddr())).Elem().String()
}

func loadCRSPatterns() []string {
	crsOnce.Do(func() {
		waf := corazawaf.NewWAF()
		p := seclang.NewParser(waf)
		p.SetRoot(coreruleset.FS)
		var files []string
		_ = fs.WalkDir(coreruleset.FS, "@owasp_crs", func(path string, d fs.DirEntry, err error) error {
			if err == nil && strings.HasSuffix(path, ".conf") {
				files = append(files, path)
			}
			return nil
		})
		sort.Strings(files)
		if err := p.FromString("Include @crs-setup.conf.example"); err != nil {
			return
		}
		for _, f := range files {
			if err := p.FromString("Include " + f); err != nil {
				fmt.Println("CRS include failed:", f, err)
			}
		}
		seen := map[string]bool{}
		rules := waf.Rules.GetRules()
		var walk func(r *corazawaf.Rule)
		walk = func(r *corazawaf.Rule) {
			rv := reflect.ValueOf(r).Elem()
			op := rv.FieldByName("operator")
			if op.IsValid() && !op.IsNil() {
				ov := reflect.NewAt(op.Type(), unsafe.Pointer(op.UnsafeAddr())).Elem().Elem()
				fn := readUnexportedString(ov, "Function")
				data := readUnexportedString(ov, "Data")
				if strings.TrimPrefix(fn, "!") == "@rx" && !seen[data] {
					seen[data] = true
					crsPatterns = append(crsPatterns, data)
				}
			}
			if r.Chain != nil {
				walk(r.Chain)
			}
		}
		for i := range rules {
			walk(&rules[i])
		}
		sort.Strings(crsPatterns)
		_ = waf.Close()
	})
	return crsPatterns
}

func genC11(t *rapid.T) *C11Case {
	c := &C11Case{Source: "generated"}
	if rapid.IntRange(0, 3).Draw(t, "crs") == 0 {
		if ps := loadCRSPatterns(); len(ps) > 0 {
			c.Source = "crs"
			c.Pattern = rapid.SampledFrom(ps).Draw(t, "crspattern")
		}
	}
	if c.Source == "generated" {
		c.Pattern = genRxPattern(t)
	}
	c.Inputs = genRxInputs(t, c.Pattern)
	return c
}

var c11Tx = c15WAF.NewTransaction()

func rxEval(op plugintypes.Operator, in string, capture bool) (bool, []string) {
	tx := c11Tx
	tx.Capture = capture
	for i := 0; i <= 9; i++ {
		tx.Variables().TX().Set(strconv.Itoa(i), []string{""})
	}
	m := op.Evaluate(tx, in)
	var caps []string
	for i := 0; i <= 9; i++ {
		v := ""
		if vs := tx.Variables().TX().Get(strconv.Itoa(i)); len(vs) > 0 {
			v = vs[0]
		}
		caps = append(caps, v)
	}
	return m, caps
}

func prefilterKind(op plugintypes.Operator) []string {
	var kinds []string
	v := reflect.ValueOf(op)
	if v.Kind() != reflect.Ptr {
		return nil
	}
	v = v.Elem()
	if f := v.FieldByName("prefilter"); f.IsValid() && !f.IsNil() {
		kinds = append(kinds, "pf:literal-prefilter")
	}
	if f := v.FieldByName("minLen"); f.IsValid() && f.Int() > 0 {
		kinds = append(kinds, "pf:min-length")
	}
	if f := v.FieldByName("exactMatch"); f.IsValid() && f.String() != "" {
		kinds = append(kinds, "pf:exact-match")
	}
	if v.Type().Name() == "binaryRX" {
		kinds = append(kinds, "binary-regex")
	}
	return kinds
}

func checkC11(c *C11Case) Result {
	res := Result{}
	var on, off plugintypes.Operator
	var errOn, errOff error
	if f := guard("@rx construction", func() {
		on, errOn = operators.Get("rx", plugintypes.OperatorOptions{Arguments: c.Pattern, RxPreFilterEnabled: true})
		off, errOff = operators.Get("rx", plugintypes.OperatorOptions{Arguments: c.Pattern, RxPreFilterEnabled: false})
	}); f != nil {
		res.Fail = f
		return res
	}
	if (errOn == nil) != (errOff == nil) {
		res.Fail = failf("pattern %q: construction error differs: prefilter on %v, off %v", c.Pattern, errOn, errOff)
		return res
	}
	if errOn != nil {
		res.Labels = append(res.Labels, "pattern-rejected-by-both")
		return res
	}
	kinds := prefilterKind(on)
	anyMatch, anyMiss := false, false
	for _, in := range c.Inputs {
		for _, capture := range []bool{false, true} {
			var mOn, mOff bool
			var cOn, cOff []string
			if f := guard("@rx evaluation", func() {
				mOff, cOff = rxEval(off, string(in), capture)
				mOn, cOn = rxEval(on, string(in), capture)
			}); f != nil {
				res.Fail = f
				return res
			}
			if mOn != mOff {
				res.Fail = failf("pattern %q input %q: prefilter on -> %v, off -> %v (%v)", c.Pattern, in, mOn, mOff, kinds)
				return res
			}
			if capture && mOn && fmt.Sprintf("%q", cOn) != fmt.Sprintf("%q", cOff) {
				res.Fail = failf("pattern %q input %q: captures differ: prefilter on %q, off %q (%v)", c.Pattern, in, cOn, cOff, kinds)
				return res
			}
			if mOff {
				anyMatch = true
			} else {
				anyMiss = true
			}
		}
	}
	res.Labels = append(res.Labels, kinds...)
	res.Labels = append(res.Labels, "source:"+c.Source)
	if strings.Contains(c.Pattern, "\\z") || strings.HasSuffix(c.Pattern, "$") {
		res.Labels = append(res.Labels, "end-anchor")
	}
	if strings.HasPrefix(strings.TrimPrefix(c.Pattern, "(?i)"), "^") || strings.Contains(c.Pattern, "\\A") {
		res.Labels = append(res.Labels, "begin-anchor")
	}
	if strings.Contains(c.Pattern, "(?i") {
		res.Labels = append(res.Labels, "case-insensitive")
	}
	if anyMatch && anyMiss {
		res.Labels = append(res.Labels, "both-outcomes")
	}
	res.NonTrivial = len(kinds) > 0 && anyMatch && anyMiss
	statExtra("pattern-input-pairs", int64(len(c.Inputs)*2))
	return res
}

func TestC11(t *testing.T) {
	runProp(t, "C11", genC11, checkC11)
}

// ---- end to end: two WAFs differing only in SecRxPreFilter -----------------------------------------

func checkC11E2E(c *C11Case) Result {
	res := Result{}
	quotable := c.Pattern != "" && c.Pattern == strings.TrimSpace(c.Pattern) && !strings.HasSuffix(c.Pattern, "\\") && !strings.HasPrefix(c.Pattern, "@") && !strings.HasPrefix(c.Pattern, "!")
	for i := 0; i < len(c.Pattern); i++ {
		if c.Pattern[i] < 0x20 || c.Pattern[i] == 0x7f {
			quotable = false
		}
	}
	if !quotable {
		res.Labels = append(res.Labels, "skipped-unquotable-pattern")
		return res
	}
	quoted := strings.ReplaceAll(c.Pattern, "\"", "\\\"")
	var outs [2][]string
	for k, flag := range []string{"Off", "On"} {
		conf := fmt.Sprintf("SecRxPreFilter %s\nSecRule REQUEST_HEADERS:x \"@rx %s\" \"id:1,phase:1,pass,capture,t:none,setvar:tx.c0=%%{tx.0},setvar:tx.c1=%%{tx.1}\"", flag, quoted)
		w, err := newWAF(conf)
		if err != nil {
			if k == 1 && outs[0] != nil {
				res.Fail = failf("SecRxPreFilter On rejects a configuration accepted with Off: %v\n%s", err, conf)
				return res
			}
			outs[k] = nil
			continue
		}
		outs[k] = []string{}
		for _, in := range c.Inputs {
			f := guard("transaction", func() {
				tx := w.NewTransaction()
				tx.AddRequestHeader("x", string(in))
				tx.ProcessRequestHeaders()
				txm, _ := collectTX(tx)
				outs[k] = append(outs[k], fmt.Sprintf("fired=%d c0=%q c1=%q", len(tx.MatchedRules()), txm["c0"], txm["c1"]))
				tx.ProcessLogging()
				_ = tx.Close()
			})
			if f != nil {
				res.Fail = f
				closeWAF(w)
				return res
			}
		}
		closeWAF(w)
	}
	if (outs[0] == nil) != (outs[1] == nil) {
		res.Fail = failf("pattern %q: accepted=%v with SecRxPreFilter Off, accepted=%v with On", c.Pattern, outs[0] != nil, outs[1] != nil)
		return res
	}
	if fmt.Sprintf("%q", outs[0]) != fmt.Sprintf("%q", outs[1]) {
		res.Fail = failf("pattern %q inputs %q: outcomes differ: Off %q, On %q", c.Pattern, c.Inputs, outs[0], outs[1])
		return res
	}
	res.NonTrivial = outs[0] != nil
	res.Labels = append(res.Labels, "e2e-two-wafs")
	return res
}

func TestC11E2E(t *testing.T) {
	runProp(t, "C11E", genC11, checkC11E2E)
}

func init() {
	registerReplay("C11", func(c *C11Case) *Failure { return checkC11(c).Fail })
	registerReplay("C11E", func(c *C11Case) *Failure { return checkC11E2E(c).Fail })
}
