// C06 — A WAF is safe to share: concurrent transactions are race-free and independent.
package verifharness

import (
	"encoding/json"
	"fmt"
	"io"
	"os"
	"path/filepath"
	"reflect"
	"runtime"
	"strings"
	"sync"
	"sync/atomic"
	"testing"
	"time"

	"github.com/corazawaf/coraza/v3"
	"github.com/corazawaf/coraza/v3/debuglog"
	"github.com/corazawaf/coraza/v3/internal/corazawaf"
	"github.com/corazawaf/coraza/v3/internal/seclang"
	"pgregory.net/rapid"
)

type C06Case struct {
	Lines      []string `json:"lines"`
	Reqs       []Req    `json:"requests"`
	Goroutines int      `json:"goroutines"`
	PerG       int      `json:"per_goroutine"`
	Builders   int      `json:"builders"`
	Procs      int      `json:"gomaxprocs"`
	// PresetLogger: the WAF is given a debug logger that already carries context fields (logger.With(...)), at debug level
	PresetLogger bool `json:"preset_logger,omitempty"`
}

func genC06(t *rapid.T) *C06Case {
	c := &C06Case{}
	c.Goroutines = rapid.SampledFrom([]int{2, 4, 8, 16}).Draw(t, "g")
	c.PerG = rapid.IntRange(5, 40).Draw(t, "perg")
	c.Builders = rapid.IntRange(0, 3).Draw(t, "builders")
	c.Procs = rapid.SampledFrom([]int{2, 4, 16}).Draw(t, "procs")
	c.PresetLogger = rapid.IntRange(0, 2).Draw(t, "presetlogger") == 0
	lines := []string{"SecRuleEngine On", "SecRequestBodyAccess On", "SecAuditEngine On", "SecAuditLogParts ABHKZ", "SecAuditLogFormat JSON"}
	if rapid.IntRange(0, 2).Draw(t, "auditfault") == 0 {
		// the concurrent writer with an index file that refuses every write (/dev/full): each transaction's logging
		// fails, which must neither change outcomes nor leave the writer unusable for the transactions behind it
		lines = append(lines, "SecAuditLogType Concurrent", "SecAuditLog /dev/full", "SecAuditLogStorageDir "+tmpPlaceholder+"/c06-store")
	} else {
		lines = append(lines, "SecAuditLogType Serial", "SecAuditLog "+tmpPlaceholder+"/c06-audit.log")
	}
	trs := []string{"lowercase", "urlDecodeUni", "removeNulls", "trim", "compressWhitespace", "htmlEntityDecode"}
	id := 100
	n := rapid.IntRange(3, 8).Draw(t, "nrules")
	for i := 0; i < n; i++ {
		id += 2
		tl := "t:none"
		k := rapid.IntRange(0, 3).Draw(t, "ntrans")
		for j := 0; j < k; j++ {
			tl += ",t:" + rapid.SampledFrom(trs).Draw(t, "t")
		}
		kind := rapid.IntRange(0, 7).Draw(t, "kind")
		if kind == 3 && multiphaseBuild && known("C06-multiphase-chainminphase-race") {
			// known finding (multiphase build only): chained rules lazily write chainMinPhase into the
			// shared rule during evaluation. Excluded by construction while the witness still fails.
			statExcluded("C06-multiphase-chainminphase-race")
			kind = 4
		}
		switch kind {
		case 0: // rule with >=3 static exclusions: its exception slice has spare capacity
			lines = append(lines, fmt.Sprintf("SecRule ARGS|!ARGS:x1|!ARGS:x2|!ARGS:x3 \"@rx %s\" \"id:%d,phase:2,pass,%s,setvar:tx.c%d=+1\"", rapid.SampledFrom([]string{"sel", "a", "^v", "\\d"}).Draw(t, "rx"), id, tl, id))
		case 1: // run-time target exclusion hitting an earlier/later rule
			tgt := 100 + 2*rapid.IntRange(1, n).Draw(t, "tgt")
			lines = append(lines, fmt.Sprintf("SecRule ARGS_GET:excl \"@rx .\" \"id:%d,phase:1,pass,nolog,ctl:ruleRemoveTargetById=%d;ARGS:%%{MATCHED_VAR},ctl:ruleRemoveTargetById=%d;ARGS:b\"", id, tgt, tgt))
			lines[len(lines)-1] = strings.ReplaceAll(lines[len(lines)-1], "ARGS:%{MATCHED_VAR},", "ARGS:a,")
		case 2:
			lines = append(lines, fmt.Sprintf("SecRule ARGS|REQUEST_HEADERS \"@pm select union admin\" \"id:%d,phase:2,pass,%s,log,msg:'pm hit',setvar:tx.c%d=+1\"", id, tl, id))
		case 3:
			lines = append(lines, fmt.Sprintf("SecRule ARGS_GET \"@rx (?i)(sel)(ect)\" \"id:%d,phase:1,pass,capture,%s,setvar:tx.cap%d=+1,chain\"\nSecRule ARGS_GET:a \"@contains a\" \"setvar:tx.l%d=+1\"", id, tl, id, id))
		case 4:
			lines = append(lines, fmt.Sprintf("SecRule ARGS:/^a/ \"@contains v\" \"id:%d,phase:2,pass,%s,setvar:tx.score=+%d\"", id, tl, i+1))
		case 5:
			lines = append(lines, fmt.Sprintf("SecRule TX:score \"@ge %d\" \"id:%d,phase:2,deny,status:403,log\"", rapid.IntRange(1, 8).Draw(t, "thr"), id))
		case 7: // per-transaction audit-parts change: must not touch the parts other transactions log with
			lines = append(lines, fmt.Sprintf("SecRule ARGS_GET:a \"@contains %s\" \"id:%d,phase:1,pass,nolog,ctl:auditLogParts=%s\"", rapid.SampledFrom([]string{"v", "1", "sel"}).Draw(t, "apv"), id, rapid.SampledFrom([]string{"-H", "-BK", "+E", "-B"}).Draw(t, "apc")))
		case 6:
			lines = append(lines, fmt.Sprintf("SecRule REQUEST_URI \"@restpath /p/{id}\" \"id:%d,phase:1,pass,%s,setvar:tx.rp=%%{ARGS_PATH.id}\"", id, tl))
		}
	}
	c.Lines = lines
	nr := rapid.IntRange(2, 5).Draw(t, "nreqs")
	for i := 0; i < nr; i++ {
		r := Req{Method: "POST", Path: rapid.SampledFrom([]string{"/p/7", "/p/abc", "/"}).Draw(t, "path"), Headers: []KV{{"Host", "h"}, {"User-Agent", rapid.SampledFrom([]string{"curl", "admin tool", "x"}).Draw(t, "ua")}}}
		na := rapid.IntRange(1, 6).Draw(t, "nargs")
		for j := 0; j < na; j++ {
			r.Query = append(r.Query, KV{rapid.SampledFrom([]string{"a", "b", "ab", "x1", "excl", "a"}).Draw(t, "an"), rapid.SampledFrom([]string{"v", "select 1", "SELECT", "a%20b", "1", "admin", "v&amp;"}).Draw(t, "av")})
		}
		if rapid.Bool().Draw(t, "post") {
			r.Post = []KV{{"a", rapid.SampledFrom([]string{"v1", "union", "x"}).Draw(t, "pv")}, {"x2", "v"}}
		}
		c.Reqs = append(c.Reqs, r)
	}
	return c
}

var caseSeq int64

// checkC06 runs the case under a watchdog of its own: with a lock that is never released even the sequential
// reference transactions wait for ever.
func checkC06(c *C06Case) Result {
	done := make(chan Result, 1)
	go func() { done <- checkC06Body(c) }()
	select {
	case r := <-done:
		return r
	case <-time.After(150 * time.Second):
		return Result{Fail: &Failure{Msg: "the case (sequential reference transactions included) did not finish within 150 s: a transaction waits for ever (deadlock)\n" + expandTmp(strings.Join(c.Lines, "\n")), Site: "deadlock"}}
	}
}

func checkC06Body(c *C06Case) Result {
	res := Result{}
	caseSeq++
	// record the case before running it: a data race aborts the whole process (halt_on_error)
	if dir := os.Getenv("VERIF_FAILDIR"); dir != "" {
		_ = os.MkdirAll(dir, 0o755)
		raw, _ := json.Marshal(c)
		b, _ := json.MarshalIndent(replayFile{Property: "C06", Message: "process aborted while this workload was running (data race report, fatal error or deadlock): see the shard log", Case: raw}, "", " ")
		_ = os.WriteFile(filepath.Join(dir, "C06.json"), b, 0o644)
		defer func() {
			if res.Fail == nil {
				_ = os.Remove(filepath.Join(dir, "C06.json"))
			}
		}()
	}
	conf := expandTmp(strings.Join(c.Lines, "\n"))
	// the serial audit log shared by all transactions of the case starts empty
	serialLog := ""
	if strings.Contains(conf, "SecAuditLogType Serial") {
		serialLog = expandTmp(tmpPlaceholder + "/c06-audit.log")
		_ = os.Remove(serialLog)
	}
	// sequential reference outcomes on a fresh WAF
	ref, err := newWAF(conf)
	if err != nil {
		res.Fail = failf("configuration rejected: %v\n%s", err, conf)
		return res
	}
	want := make([]string, len(c.Reqs))
	for i := range c.Reqs {
		o, f := runCanonical(ref, &c.Reqs[i])
		if f != nil {
			res.Fail = f
			return res
		}
		want[i] = canonOutcome(o)
	}
	closeWAF(ref)

	old := runtime.GOMAXPROCS(c.Procs)
	defer runtime.GOMAXPROCS(old)
	var shared coraza.WAF
	if c.PresetLogger {
		// a logger that carries context fields of its own: every transaction derives its logger from it
		lg := debuglog.Default().WithOutput(io.Discard).WithLevel(debuglog.LevelDebug).
			With(debuglog.Str("service", strings.Repeat("s", 900)), debuglog.Str("instance", "i-1"))
		shared, err = coraza.NewWAF(coraza.NewWAFConfig().WithDirectives(conf).WithDebugLogger(lg))
	} else {
		shared, err = newWAF(conf)
	}
	if err != nil {
		res.Fail = failf("configuration rejected: %v", err)
		return res
	}
	var inflight, maxInflight int32
	var mu sync.Mutex
	var failures []string
	addFail := func(s string) {
		mu.Lock()
		if len(failures) < 5 {
			failures = append(failures, s)
		}
		mu.Unlock()
	}
	var wg sync.WaitGroup
	stop := make(chan struct{})
	chainIDs := map[int][]string{} // id of a transformation chain -> the chains it was handed out for (guarded by mu)
	loadVocab()
	for b := 0; b < c.Builders; b++ {
		wg.Add(1)
		go func(b int) {
			defer wg.Done()
			for it := 0; ; it++ {
				select {
				case <-stop:
					return
				default:
				}
				// every build adds a rule with a transformation chain nobody has used yet, so the
				// global chain-id table and the pattern cache are written while other WAFs are in use
				tr := vocabData.transformations
				n := len(tr)
				x := (b*7919 + it*104729 + int(caseSeq)*31) % (n * n * n)
				y := (x*31 + 17 + b) % (n * n * n)
				chainA := []string{tr[x%n], tr[(x/n)%n], tr[(x/n/n)%n]}
				chainB := []string{tr[y%n], tr[(y/n)%n], tr[(y/n/n)%n]}
				extra := fmt.Sprintf("\nSecRule ARGS \"@rx b%dx%d\" \"id:9998,phase:2,pass,t:none,t:%s\"\nSecRule ARGS \"@rx c%dx%d\" \"id:9999,phase:2,pass,t:none,t:%s\"",
					b, it, strings.Join(chainA, ",t:"), b, it, strings.Join(chainB, ",t:"))
				if f := guard("concurrent NewWAF", func() {
					iw := corazawaf.NewWAF()
					if err := seclang.NewParser(iw).FromString(conf + extra); err != nil {
						panic(fmt.Sprintf("NewWAF failed while other WAFs were in use: %v", err))
					}
					// the registry of transformation chains hands out one id per distinct chain: the ids key the
					// per-transaction transformation cache, so two chains under one id means one rule reading the other's values
					rules := iw.Rules.GetRules()
					for i := range rules {
						var chain []string
						switch rules[i].ID_ {
						case 9998:
							chain = chainA
						case 9999:
							chain = chainB
						default:
							continue
						}
						id := int(accessible(reflect.ValueOf(&rules[i]).Elem().FieldByName("transformationsID")).Int())
						mu.Lock()
						// t:none empties the list: the chain is what follows the last one
						for k := len(chain) - 1; k >= 0; k-- {
							if strings.EqualFold(chain[k], "none") {
								chain = chain[k+1:]
								break
							}
						}
						chainIDs[id] = append(chainIDs[id], strings.Join(chain, "+"))
						mu.Unlock()
					}
					_ = iw.Close()
				}); f != nil {
					addFail(f.Msg)
					return
				}
			}
		}(b)
	}
	var txwg sync.WaitGroup
	for g := 0; g < c.Goroutines; g++ {
		txwg.Add(1)
		go func(g int) {
			defer txwg.Done()
			for k := 0; k < c.PerG; k++ {
				i := (g + k) % len(c.Reqs)
				n := atomic.AddInt32(&inflight, 1)
				for {
					m := atomic.LoadInt32(&maxInflight)
					if n <= m || atomic.CompareAndSwapInt32(&maxInflight, m, n) {
						break
					}
				}
				o, f := runCanonical(shared, &c.Reqs[i])
				atomic.AddInt32(&inflight, -1)
				if f != nil {
					addFail(f.Msg)
					return
				}
				if got := canonOutcome(o); got != want[i] {
					addFail(fmt.Sprintf("request %d (%s) run concurrently differs from the same request run alone:\n--- alone\n%s--- concurrent\n%s", i, c.Reqs[i].URI(), want[i], got))
					return
				}
			}
		}(g)
	}
	done := make(chan struct{})
	go func() { txwg.Wait(); close(done) }()
	select {
	case <-done:
	case <-time.After(60 * time.Second):
		res.Fail = &Failure{Msg: "workload did not finish within 60 s (deadlock?)\n" + conf, Site: "deadlock"}
		close(stop)
		return res
	}
	close(stop)
	wg.Wait()
	closeWAF(shared)
	for id, chains := range chainIDs {
		for _, ch := range chains[1:] {
			if ch != chains[0] {
				failures = append(failures, fmt.Sprintf("WAFs built concurrently were given the same transformation-chain id %d for two different chains: %q and %q", id, chains[0], ch))
				break
			}
		}
	}
	if serialLog != "" && len(failures) == 0 {
		// writers sharing one audit log: one whole record per line, one line per transaction (the audit engine is On)
		raw, err := os.ReadFile(serialLog)
		if err != nil {
			failures = append(failures, fmt.Sprintf("the shared serial audit log cannot be read: %v", err))
		} else {
			lines := strings.Split(strings.TrimSuffix(string(raw), "\n"), "\n")
			wantN := len(c.Reqs) + c.Goroutines*c.PerG
			for _, l := range lines {
				var doc map[string]any
				if json.Unmarshal([]byte(l), &doc) != nil {
					failures = append(failures, fmt.Sprintf("a line of the shared serial audit log is not one whole record (records of concurrent transactions interleaved): %.200q", l))
					break
				}
			}
			if len(failures) == 0 && len(lines) != wantN {
				failures = append(failures, fmt.Sprintf("the shared serial audit log holds %d records for %d transactions", len(lines), wantN))
			}
			res.Labels = append(res.Labels, "shared-serial-audit-log-checked")
		}
	}
	if len(failures) > 0 {
		res.Fail = failf("%s\nconfig:\n%s", strings.Join(failures, "\n"), conf)
		return res
	}
	statExtra("concurrent-transactions", int64(c.Goroutines*c.PerG))
	if maxInflight >= 2 {
		res.Labels = append(res.Labels, "overlap-observed")
	}
	for _, l := range c.Lines {
		switch {
		case strings.Contains(l, "!ARGS:x3"):
			res.Labels = append(res.Labels, "rule-with-spare-exception-capacity")
		case strings.Contains(l, "ruleRemoveTargetById"):
			res.Labels = append(res.Labels, "runtime-target-exclusion")
		case strings.Contains(l, "@pm"):
			res.Labels = append(res.Labels, "shared-pm")
		case strings.Contains(l, "SecAuditLog /dev/full"):
			res.Labels = append(res.Labels, "audit-index-write-fails")
		case strings.Contains(l, "ctl:auditLogParts"):
			res.Labels = append(res.Labels, "ctl-auditLogParts")
		case strings.Contains(l, "chain"):
			res.Labels = append(res.Labels, "chain")
		}
	}
	if c.Builders > 0 {
		res.Labels = append(res.Labels, "concurrent-waf-builds")
	}
	if c.PresetLogger {
		res.Labels = append(res.Labels, "logger-with-context-fields")
	}
	res.NonTrivial = maxInflight >= 2
	return res
}

func TestC06(t *testing.T) {
	runProp(t, "C06", genC06, checkC06)
}

func init() {
	registerReplay("C06", func(c *C06Case) *Failure { return checkC06(c).Fail })
}
