// C18 — HTTP middleware blocks completely and otherwise passes traffic through intact.
package verifharness

import (
	"bytes"
	"fmt"
	"io"
	"net/http"
	"net/http/httptest"
	"os"
	"path/filepath"
	"strings"
	"sync"
	"sync/atomic"
	"testing"

	txhttp "github.com/corazawaf/coraza/v3/http"
	"pgregory.net/rapid"
)

type C18Write struct {
	Kind string `json:"kind"` // write | flush | readfrom
	N    int    `json:"n,omitempty"`
}

type C18Case struct {
	// configuration
	DenyPhase  int `json:"deny_phase"` // 0: no deny rule
	DenyStatus int `json:"deny_status"`
	// Disr: the disruptive action of the blocking rule: "" / deny | redirect | drop
	Disr string `json:"disruptive,omitempty"`
	// Info103: the handler sends an informational 103 response before its final status (real server only)
	Info103    bool `json:"info_103,omitempty"`
	ReqAccess  bool `json:"req_body_access"`
	RespAccess bool `json:"resp_body_access"`
	// CtlRespAccess: response body access is configured Off and switched on for the transaction by a rule of this
	// phase (1-3) with ctl:responseBodyAccess=On; 0: no such rule
	CtlRespAccess int    `json:"ctl_resp_body_access,omitempty"`
	ReqLimit      int    `json:"req_limit"`
	ReqAction     string `json:"req_limit_action"`
	RespLimit     int    `json:"resp_limit"`
	RespAction    string `json:"resp_limit_action"`
	// request
	Block     bool `json:"block_header"`
	BodyLen   int  `json:"body_len"`
	Chunked   bool `json:"chunked"` // unknown length (server mode)
	UseServer bool `json:"use_server"`
	// handler
	ReadMode   string     `json:"read_mode"` // all | part | none
	ReadPart   int        `json:"read_part,omitempty"`
	Code       int        `json:"code"` // 0: no explicit WriteHeader
	CType      string     `json:"content_type"`
	ExtraHdr   string     `json:"extra_header,omitempty"`
	Writes     []C18Write `json:"writes"`
	HeadBefore bool       `json:"header_before_write"`
	// After: the WAF has served another request before ("plain"), during which the temporary directory was emptied by
	// something else ("tmpclean": a tmp cleaner; the predecessor's clean-up then meets a missing spill file)
	After string `json:"after,omitempty"`
}

func genC18(t *rapid.T) *C18Case {
	c := &C18Case{}
	c.DenyPhase = rapid.IntRange(0, 4).Draw(t, "denyphase")
	// 99, 103, 1000: no final response can carry them (a configuration naming one has to be refused, or answered with
	// some status a response can carry; what may not happen is a panic in net/http or a success status)
	c.DenyStatus = rapid.SampledFrom([]int{0, 403, 401, 500, 451, 403, 401, 500, 451, 99, 103, 1000}).Draw(t, "denystatus")
	switch rapid.IntRange(0, 5).Draw(t, "disr") {
	case 0:
		c.Disr = "redirect"
		c.DenyStatus = rapid.SampledFrom([]int{0, 301, 307, 403}).Draw(t, "redirstatus")
	case 1:
		c.Disr = "drop"
		c.DenyStatus = 0
	}
	c.ReqAccess = rapid.Bool().Draw(t, "reqaccess")
	c.RespAccess = rapid.Bool().Draw(t, "respaccess")
	if !c.RespAccess && rapid.IntRange(0, 2).Draw(t, "ctlrespaccess") == 0 {
		c.CtlRespAccess = rapid.IntRange(1, 3).Draw(t, "ctlrespphase")
	}
	c.ReqLimit = rapid.IntRange(4, 40).Draw(t, "reqlimit")
	c.ReqAction = rapid.SampledFrom([]string{"Reject", "ProcessPartial"}).Draw(t, "reqaction")
	c.RespLimit = rapid.IntRange(4, 40).Draw(t, "resplimit")
	c.RespAction = rapid.SampledFrom([]string{"Reject", "ProcessPartial"}).Draw(t, "respaction")
	c.Block = rapid.Bool().Draw(t, "block")
	c.BodyLen = rapid.SampledFrom([]int{0, 1, c.ReqLimit - 1, c.ReqLimit, c.ReqLimit + 1, c.ReqLimit + 30, c.ReqLimit / 2}).Draw(t, "bodylen")
	c.Chunked = rapid.Bool().Draw(t, "chunked")
	c.UseServer = rapid.IntRange(0, 4).Draw(t, "server") == 0
	c.ReadMode = rapid.SampledFrom([]string{"all", "all", "part", "none", "zero-then-all"}).Draw(t, "readmode")
	c.ReadPart = rapid.IntRange(1, 10).Draw(t, "readpart")
	c.Code = rapid.SampledFrom([]int{0, 200, 201, 404, 500, 204, 304}).Draw(t, "code")
	// media types are case-insensitive and may carry parameters, with or without blanks around the ";"
	c.CType = rapid.SampledFrom([]string{"text/plain", "text/plain", "image/png", "", "Text/Plain", "text/plain; charset=utf-8", "text/plain ; charset=utf-8", "TEXT/PLAIN;charset=UTF-8", "text/plainer"}).Draw(t, "ctype")
	c.ExtraHdr = rapid.SampledFrom([]string{"", "v1", "a, b"}).Draw(t, "extrahdr")
	c.HeadBefore = rapid.Bool().Draw(t, "headbefore")
	if c.Code != 204 && c.Code != 304 {
		total := rapid.SampledFrom([]int{0, 1, c.RespLimit - 1, c.RespLimit, c.RespLimit + 1, c.RespLimit + 25, c.RespLimit / 2}).Draw(t, "resptotal")
		if total < 0 {
			total = 0
		}
		// split into chunks with interleaved flushes
		rem := total
		for rem > 0 {
			n := rapid.IntRange(1, rem).Draw(t, "chunk")
			kind := rapid.SampledFrom([]string{"write", "write", "readfrom", "readfromfile"}).Draw(t, "wkind")
			c.Writes = append(c.Writes, C18Write{Kind: kind, N: n})
			rem -= n
			if rapid.IntRange(0, 2).Draw(t, "flush") == 0 {
				c.Writes = append(c.Writes, C18Write{Kind: "flush"})
			}
		}
		if total == 0 && rapid.Bool().Draw(t, "emptywrite") {
			c.Writes = append(c.Writes, C18Write{Kind: "write", N: 0})
		}
	}
	if rapid.IntRange(0, 9).Draw(t, "info103") == 0 {
		c.Info103, c.UseServer = true, true // interim responses exist only on a real connection
	}
	for _, wr := range c.Writes {
		if wr.Kind == "readfromfile" && rapid.Bool().Draw(t, "serverforfile") {
			c.UseServer = true // net/http's own ReadFrom (sendfile) path exists only on a real connection
		}
	}
	c.After = rapid.SampledFrom([]string{"", "", "", "plain", "tmpclean", "tmpclean"}).Draw(t, "after")
	if c.Code == 0 && len(c.Writes) == 0 && rapid.Bool().Draw(t, "explicit200") {
		// otherwise: a handler that returns without having produced anything (net/http answers 200 for it)
		c.Code = 200
	}
	return c
}

func (c *C18Case) conf() string {
	var sb strings.Builder
	sb.WriteString("SecRuleEngine On\n")
	if c.ReqAccess {
		sb.WriteString("SecRequestBodyAccess On\n")
	}
	if c.RespAccess {
		sb.WriteString("SecResponseBodyAccess On\nSecResponseBodyMimeType text/plain\n")
	}
	if c.CtlRespAccess > 0 {
		fmt.Fprintf(&sb, "SecResponseBodyMimeType text/plain\nSecAction \"id:5,phase:%d,pass,nolog,ctl:responseBodyAccess=On\"\n", c.CtlRespAccess)
	}
	if c.After == "tmpclean" {
		sb.WriteString("SecRequestBodyInMemoryLimit 4\n")
	}
	fmt.Fprintf(&sb, "SecRequestBodyLimit %d\nSecRequestBodyLimitAction %s\nSecResponseBodyLimit %d\nSecResponseBodyLimitAction %s\n", c.ReqLimit, c.ReqAction, c.RespLimit, c.RespAction)
	if c.DenyPhase > 0 {
		st := ""
		if c.DenyStatus != 0 {
			st = fmt.Sprintf(",status:%d", c.DenyStatus)
		}
		disr := "deny"
		switch c.Disr {
		case "redirect":
			disr = "redirect:http://r.example/blocked"
		case "drop":
			disr = "drop"
		}
		fmt.Fprintf(&sb, "SecRule REQUEST_HEADERS:X-Block \"@streq 1\" \"id:1,phase:%d,%s%s\"\n", c.DenyPhase, disr, st)
	}
	return sb.String()
}

func patternBytes(n int, salt byte) []byte {
	b := make([]byte, n)
	for i := range b {
		b[i] = 'a' + byte((i*7+int(salt))%26)
	}
	return b
}

type c18Result struct {
	handlerInvoked bool
	handlerRead    []byte
	handlerWrote   []byte
	status         int
	body           []byte
	header         http.Header
	// predSpillRemoved: the predecessor's spill file was removed while it was being served
	predSpillRemoved bool
}

func (c *C18Case) run() (*c18Result, *Failure) {
	res := &c18Result{}
	w, err := newWAF(c.conf())
	if err != nil {
		return nil, failf("configuration rejected: %v\n%s", err, c.conf())
	}
	defer closeWAF(w)
	if c.After != "" {
		// the predecessor: an unblocked request with a body and a buffered response, served by the same WAF
		pred := txhttp.WrapHandler(w, http.HandlerFunc(func(rw http.ResponseWriter, r *http.Request) {
			_, _ = io.ReadAll(r.Body)
			if c.After == "tmpclean" {
				if names, _ := filepath.Glob(filepath.Join(privateTmp, "body*")); len(names) > 0 {
					for _, n := range names {
						_ = os.Remove(n)
					}
					res.predSpillRemoved = true
				}
			}
			rw.Header().Set("Content-Type", "text/plain")
			_, _ = rw.Write([]byte("PREDECESSOR-RESPONSE"))
		}))
		if f := guard("middleware (predecessor)", func() {
			n := c.ReqLimit - 1
			if n > 24 {
				n = 24
			}
			req := httptest.NewRequest("POST", "/pred?x=1", bytes.NewReader(patternBytes(n, 5)))
			req.Header.Set("Content-Type", "application/x-www-form-urlencoded")
			pred.ServeHTTP(httptest.NewRecorder(), req)
		}); f != nil {
			return nil, f
		}
	}
	reqBody := patternBytes(c.BodyLen, 3)
	handler := http.HandlerFunc(func(rw http.ResponseWriter, r *http.Request) {
		res.handlerInvoked = true
		switch c.ReadMode {
		case "all":
			res.handlerRead, _ = io.ReadAll(r.Body)
		case "zero-then-all":
			// a zero-length read (io.Reader: "may return 0, nil") first, then everything
			_, _ = r.Body.Read(nil)
			res.handlerRead, _ = io.ReadAll(r.Body)
		case "part":
			buf := make([]byte, c.ReadPart)
			n, _ := io.ReadFull(r.Body, buf)
			res.handlerRead = buf[:n]
		}
		if c.CType != "" {
			rw.Header().Set("Content-Type", c.CType)
		}
		if c.ExtraHdr != "" {
			rw.Header().Set("X-Extra", c.ExtraHdr)
		}
		if c.Info103 {
			rw.WriteHeader(http.StatusEarlyHints)
		}
		if c.Code != 0 {
			rw.WriteHeader(c.Code)
		}
		off := 0
		for _, wr := range c.Writes {
			switch wr.Kind {
			case "write":
				chunk := patternBytes(off+wr.N, 11)[off:]
				res.handlerWrote = append(res.handlerWrote, chunk...)
				_, _ = rw.Write(chunk)
				off += wr.N
			case "readfrom":
				chunk := patternBytes(off+wr.N, 11)[off:]
				res.handlerWrote = append(res.handlerWrote, chunk...)
				if rf, ok := rw.(io.ReaderFrom); ok {
					_, _ = rf.ReadFrom(bytes.NewReader(chunk))
				} else {
					_, _ = rw.Write(chunk)
				}
				off += wr.N
			case "readfromfile":
				// what http.ServeContent / io.Copy from a file do: the reader is an *os.File, plain or length-limited
				chunk := patternBytes(off+wr.N, 11)[off:]
				res.handlerWrote = append(res.handlerWrote, chunk...)
				name := filepath.Join(privateTmp, fmt.Sprintf("c18-body-%d-%d", os.Getpid(), off))
				_ = os.WriteFile(name, chunk, 0o644)
				if fh, err := os.Open(name); err == nil {
					var src io.Reader = fh
					if wr.N%2 == 0 {
						src = &io.LimitedReader{R: fh, N: int64(len(chunk))}
					}
					if rf, ok := rw.(io.ReaderFrom); ok {
						_, _ = rf.ReadFrom(src)
					} else {
						_, _ = io.Copy(rw, src)
					}
					_ = fh.Close()
				}
				_ = os.Remove(name)
				off += wr.N
			case "flush":
				if fl, ok := rw.(http.Flusher); ok {
					fl.Flush()
				}
			}
		}
	})
	wrapped := txhttp.WrapHandler(w, handler)
	f := guard("middleware", func() {
		if c.UseServer {
			// one listener per process (a server per case exhausts the ephemeral ports in long runs): the
			// handler of the case is installed for the duration of its request
			srv := c18SharedServer()
			c18Handler.Store(&wrapped)
			var body io.Reader = bytes.NewReader(reqBody)
			if c.Chunked {
				body = plainReader{bytes.NewReader(reqBody)} // unknown length -> chunked transfer encoding
			}
			req, _ := http.NewRequest("POST", srv.URL+"/p?x=1", body)
			req.Header.Set("Content-Type", "application/x-www-form-urlencoded")
			if c.Block {
				req.Header.Set("X-Block", "1")
			}
			resp, err := c18Client.Do(req)
			if err != nil {
				panic(fmt.Sprintf("client error: %v", err))
			}
			defer resp.Body.Close()
			res.status = resp.StatusCode
			res.body, _ = io.ReadAll(resp.Body)
			res.header = resp.Header
		} else {
			var body io.Reader = bytes.NewReader(reqBody)
			if c.Chunked {
				body = plainReader{bytes.NewReader(reqBody)}
			}
			req := httptest.NewRequest("POST", "/p?x=1", body)
			req.Header.Set("Content-Type", "application/x-www-form-urlencoded")
			if c.Block {
				req.Header.Set("X-Block", "1")
			}
			rec := httptest.NewRecorder()
			wrapped.ServeHTTP(rec, req)
			res.status = rec.Code
			res.body = rec.Body.Bytes()
			res.header = rec.Header()
		}
	})
	return res, f
}

var c18Once sync.Once
var c18Srv *httptest.Server
var c18Handler atomic.Pointer[http.Handler]

// connections are kept alive and reused (a connection per request would leave tens of thousands of sockets in
// TIME_WAIT during long runs); net/http hands a connection back only after the response has been read completely
var c18Client = &http.Client{Transport: &http.Transport{MaxIdleConnsPerHost: 2},
	CheckRedirect: func(*http.Request, []*http.Request) error { return http.ErrUseLastResponse }} // a redirect is an answer, not an instruction to the test client

func c18SharedServer() *httptest.Server {
	c18Once.Do(func() {
		c18Srv = httptest.NewServer(http.HandlerFunc(func(rw http.ResponseWriter, r *http.Request) {
			if h := c18Handler.Load(); h != nil {
				(*h).ServeHTTP(rw, r)
			}
		}))
	})
	return c18Srv
}

func checkC18(c *C18Case) Result {
	out := Result{}
	r, f := c.run()
	unusableStatus := c.DenyPhase > 0 && c.DenyStatus != 0 && (c.DenyStatus < 200 || c.DenyStatus > 999)
	if f != nil && unusableStatus && strings.Contains(f.Msg, "configuration rejected") {
		out.Labels = append(out.Labels, "unusable-status-refused")
		return out
	}
	if f != nil {
		if strings.Contains(f.Msg, "failed to listen on a port") || strings.Contains(f.Msg, "cannot assign requested address") || strings.Contains(f.Msg, "address already in use") {
			// the machine ran out of ports: nothing was learnt about the middleware
			out.Labels = append(out.Labels, "infrastructure:no-free-port")
			return out
		}
		out.Fail = f
		return out
	}
	if c.After != "" {
		out.Labels = append(out.Labels, "after-another-request")
	}
	if r.predSpillRemoved {
		out.Labels = append(out.Labels, "predecessor-spill-file-removed")
	}
	ctx := fmt.Sprintf("\ncase: %+v\nconfig:\n%shandler invoked=%v read=%d bytes wrote=%d bytes; client status=%d body=%d bytes %q", *c, c.conf(), r.handlerInvoked, len(r.handlerRead), len(r.handlerWrote), r.status, len(r.body), r.body)
	denyStatus := c.DenyStatus
	if denyStatus == 0 {
		denyStatus = 403
	}
	switch c.Disr {
	case "redirect":
		// the interruption of a redirect carries 302 unless the rule names another redirection status
		denyStatus = 302
		if c.DenyStatus == 301 || c.DenyStatus == 307 {
			denyStatus = c.DenyStatus
		}
	case "drop":
		denyStatus = -1 // no particular status (the connection is to be dropped): anything but a success
	default:
		if unusableStatus {
			denyStatus = -1 // accepted although no response can carry it: anything but a success (and no panic)
			out.Labels = append(out.Labels, "unusable-status-accepted")
		}
	}
	statusOK := func(got, want int) bool {
		if want == -1 {
			return got/100 != 2
		}
		return got == want
	}
	block := c.Block && c.DenyPhase > 0
	// ---- request phases
	reqBlocked, reqStatus := false, 0
	switch {
	case block && c.DenyPhase == 1:
		reqBlocked, reqStatus = true, denyStatus
	case c.ReqAccess && c.ReqAction == "Reject" && c.BodyLen >= c.ReqLimit:
		reqBlocked, reqStatus = true, 413
	case block && c.DenyPhase == 2:
		reqBlocked, reqStatus = true, denyStatus
	}
	if reqBlocked {
		if r.handlerInvoked {
			out.Fail = failf("the request is interrupted in a request phase but the wrapped handler was invoked%s", ctx)
			return out
		}
		if !statusOK(r.status, reqStatus) {
			out.Fail = failf("request-phase interruption: client status %d, expected %d (-1: anything but 2xx)%s", r.status, reqStatus, ctx)
			return out
		}
		if c.Disr == "redirect" && reqStatus != 413 && r.header.Get("Location") != "http://r.example/blocked" {
			out.Fail = failf("request-phase redirect: Location header %q, expected the rule's target%s", r.header.Get("Location"), ctx)
			return out
		}
		if c.Disr != "" && reqStatus != 413 {
			out.Labels = append(out.Labels, "blocked-by-"+c.Disr)
		}
		if len(r.body) != 0 {
			out.Fail = failf("request-phase interruption: the client received %d body bytes%s", len(r.body), ctx)
			return out
		}
		out.Labels = append(out.Labels, "blocked-in-request-phase")
		if reqStatus == 413 {
			out.Labels = append(out.Labels, "request-body-limit-reject")
		}
		out.NonTrivial = true
		return out
	}
	if !r.handlerInvoked {
		out.Fail = failf("nothing interrupts the request but the handler was not invoked%s", ctx)
		return out
	}
	// the handler reads exactly the client's request body
	sent := patternBytes(c.BodyLen, 3)
	wantRead := sent
	switch c.ReadMode {
	case "part":
		if len(wantRead) > c.ReadPart {
			wantRead = wantRead[:c.ReadPart]
		}
	case "none":
		wantRead = nil
	}
	if !bytes.Equal(r.handlerRead, wantRead) {
		out.Fail = failf("the handler read %q, the client sent %q (read mode %s)%s", r.handlerRead, wantRead, c.ReadMode, ctx)
		return out
	}
	// ---- response phases
	mediaType, _, _ := strings.Cut(c.CType, ";")
	isTextPlain := strings.EqualFold(strings.TrimSpace(mediaType), "text/plain")
	processable := (c.RespAccess || c.CtlRespAccess > 0) && isTextPlain
	if isTextPlain && c.CType != "text/plain" {
		out.Labels = append(out.Labels, "content-type-in-another-spelling")
	}
	if c.CtlRespAccess > 0 {
		out.Labels = append(out.Labels, "response-body-access-switched-on-by-ctl")
	}
	total := len(r.handlerWrote)
	code := c.Code
	if code == 0 {
		code = 200
	}
	respBlocked, respStatus := false, 0
	switch {
	case block && c.DenyPhase == 3:
		respBlocked, respStatus = true, denyStatus
	case processable && c.RespAction == "Reject" && total >= c.RespLimit:
		respBlocked, respStatus = true, 500
	case processable && block && c.DenyPhase == 4:
		respBlocked, respStatus = true, denyStatus
	}
	if respBlocked {
		if len(r.body) != 0 {
			out.Fail = failf("the response is interrupted in a response phase but %d bytes of the handler's body reached the client%s", len(r.body), ctx)
			return out
		}
		if !statusOK(r.status, respStatus) {
			out.Fail = failf("response-phase interruption: client status %d, expected %d (-1: anything but 2xx)%s", r.status, respStatus, ctx)
			return out
		}
		if c.Disr == "redirect" && respStatus != 500 && r.header.Get("Location") != "http://r.example/blocked" {
			out.Fail = failf("response-phase redirect: Location header %q, expected the rule's target%s", r.header.Get("Location"), ctx)
			return out
		}
		if c.Disr != "" && respStatus != 500 {
			out.Labels = append(out.Labels, "blocked-late-by-"+c.Disr)
		}
		out.Labels = append(out.Labels, fmt.Sprintf("blocked-late"))
		out.NonTrivial = true
		return out
	}
	// pass-through: status, headers and body intact
	if r.status != code {
		out.Fail = failf("client status %d, the handler produced %d%s", r.status, code, ctx)
		return out
	}
	if !bytes.Equal(r.body, r.handlerWrote) {
		out.Fail = failf("client body (%d bytes) differs from what the handler wrote (%d bytes)%s", len(r.body), len(r.handlerWrote), ctx)
		return out
	}
	// (net/http itself drops entity headers of 204/304 responses)
	if c.CType != "" && code != 204 && code != 304 && r.header.Get("Content-Type") != c.CType {
		out.Fail = failf("Content-Type header %q, handler set %q%s", r.header.Get("Content-Type"), c.CType, ctx)
		return out
	}
	if c.ExtraHdr != "" && r.header.Get("X-Extra") != c.ExtraHdr {
		out.Fail = failf("X-Extra header %q, handler set %q%s", r.header.Get("X-Extra"), c.ExtraHdr, ctx)
		return out
	}
	// labels
	out.Labels = append(out.Labels, "passed-through")
	nearReq := c.ReqAccess && c.BodyLen >= c.ReqLimit-1 && c.BodyLen <= c.ReqLimit+1
	nearResp := processable && total >= c.RespLimit-1 && total <= c.RespLimit+1
	flushBetween := false
	nw := 0
	for i, wr := range c.Writes {
		if wr.Kind != "flush" {
			nw++
		} else if i > 0 && i < len(c.Writes)-1 {
			flushBetween = true
		}
	}
	if nearReq {
		out.Labels = append(out.Labels, "request-body-at-limit")
	}
	if nearResp {
		out.Labels = append(out.Labels, "response-body-at-limit")
	}
	if flushBetween && nw >= 2 {
		out.Labels = append(out.Labels, "writes-with-flush-between")
	}
	if c.ReqAccess && c.ReqAction == "ProcessPartial" && c.BodyLen > c.ReqLimit && (c.ReadMode == "all" || c.ReadMode == "zero-then-all") {
		out.Labels = append(out.Labels, "partial-request-body-spliced")
	}
	if processable && c.RespAction == "ProcessPartial" && total > c.RespLimit {
		out.Labels = append(out.Labels, "partial-response-body-released")
	}
	if c.UseServer {
		out.Labels = append(out.Labels, "real-server")
		if c.Chunked {
			out.Labels = append(out.Labels, "chunked-request")
		}
	}
	for _, wr := range c.Writes {
		if wr.Kind == "readfromfile" && c.UseServer {
			out.Labels = append(out.Labels, "file-reader-on-real-server")
			break
		}
	}
	if c.Info103 {
		out.Labels = append(out.Labels, "informational-response-first")
	}
	if c.Code == 204 || c.Code == 304 {
		out.Labels = append(out.Labels, "no-body-status")
	}
	if c.Code == 0 {
		out.Labels = append(out.Labels, "implicit-write-header")
	}
	if c.Code == 0 && len(c.Writes) == 0 {
		out.Labels = append(out.Labels, "silent-handler")
	}
	out.NonTrivial = nearReq || nearResp || (flushBetween && nw >= 2)
	return out
}

func TestC18(t *testing.T) {
	runProp(t, "C18", genC18, checkC18)
}

func init() {
	registerReplay("C18", func(c *C18Case) *Failure { return checkC18(c).Fail })
}
