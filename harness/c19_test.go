// C19 — Audit and error logging record exactly what happened, once, intact.
package verifharness

import (
	"bufio"
	"encoding/json"
	"fmt"
	"io"
	"net/http"
	"net/http/httptest"
	"os"
	"path/filepath"
	"regexp"
	"sort"
	"strings"
	"sync"
	"testing"

	"github.com/corazawaf/coraza/v3"
	"github.com/corazawaf/coraza/v3/experimental/plugins"
	"github.com/corazawaf/coraza/v3/experimental/plugins/plugintypes"
	"github.com/corazawaf/coraza/v3/types"
	"pgregory.net/rapid"
)

// ---- capturing audit writer -------------------------------------------------------------------------

type capturedRecord struct {
	TxID      string
	Parts     string
	RuleIDs   []int
	Formatted []byte
	FmtErr    error
}

var capMu sync.Mutex
var captured []capturedRecord

// captureWriter behaves like the built-in writers in one respect: it delivers to the target it was initialised with
// (SecAuditLog), and a writer without a target delivers nothing.
type captureWriter struct {
	f      plugintypes.AuditLogFormatter
	target string
}

const c19Target = "verif-capture-target"

func (w *captureWriter) Init(c plugintypes.AuditLogConfig) error {
	w.f, w.target = c.Formatter, c.Target
	return nil
}
func (w *captureWriter) Close() error { return nil }
func (w *captureWriter) Write(al plugintypes.AuditLog) error {
	if w.target != c19Target {
		return nil
	}
	rec := capturedRecord{TxID: al.Transaction().ID(), Parts: string(partsBytes(al.Parts()))}
	for _, m := range al.Messages() {
		if d := m.Data(); d != nil && !isNilPtr(d) {
			rec.RuleIDs = append(rec.RuleIDs, d.ID())
		} else {
			rec.RuleIDs = append(rec.RuleIDs, -1) // message without rule data (part H without K)
		}
	}
	if w.f != nil {
		rec.Formatted, rec.FmtErr = w.f.Format(al)
	}
	capMu.Lock()
	captured = append(captured, rec)
	capMu.Unlock()
	return nil
}

func partsBytes(p types.AuditLogParts) []byte {
	b := make([]byte, len(p))
	for i, x := range p {
		b[i] = byte(x)
	}
	return b
}

func isNilPtr(v any) bool {
	defer func() { _ = recover() }()
	return fmt.Sprintf("%p", v) == "0x0"
}

var c19Once sync.Once

func c19Setup() {
	c19Once.Do(func() {
		plugins.RegisterAuditLogWriter("verifcapture", func() plugintypes.AuditLogWriter { return &captureWriter{} })
	})
}

// ---- case --------------------------------------------------------------------------------------------

type C19Rule struct {
	ID    int      `json:"id"`
	Phase int      `json:"phase"`
	Flags []string `json:"flags"` // log nolog auditlog noauditlog in order
	Cond  bool     `json:"cond"`  // conditional on header X-Hit: 1
	Deny  bool     `json:"deny,omitempty"`
	St    int      `json:"status,omitempty"`
	Msg   string   `json:"msg,omitempty"`
	Multi bool     `json:"multi,omitempty"` // matches several values (all request headers)
}

type C19Case struct {
	Engine   string    `json:"engine"`       // On | DetectionOnly
	Audit    string    `json:"audit_engine"` // On | Off | RelevantOnly
	CtlAudit string    `json:"ctl_audit,omitempty"`
	Pattern  string    `json:"relevant_status"`
	Parts    string    `json:"parts"`
	CtlParts string    `json:"ctl_parts,omitempty"`
	Format   string    `json:"format"`
	Rules    []C19Rule `json:"rules"`
	Hit      bool      `json:"hit_header"`
	// Warmup: the same request is served (and logged) once before on the same WAF
	Warmup bool `json:"warmup,omitempty"`
	// RespPartial: the response body is larger than a small SecResponseBodyLimit with ProcessPartial
	RespPartial bool   `json:"resp_partial,omitempty"`
	RespStatus  int    `json:"resp_status"`
	HdrVal      string `json:"header_value"`
	Body        string `json:"body"`
}

var c19Hostile = []string{"plain", "line1\nline2", "quote\"s and 'single'", "\xff\xfe invalid utf8", "--abcdefghij-Z--", "\n--abcdefghij-A--\n[fake] record", "{\"json\":\"inside\"}", "tab\there", "\r\n", "back\\slash", "é€", "\x00nul"}

func genC19(t *rapid.T) *C19Case {
	c19Setup()
	c := &C19Case{}
	c.Engine = rapid.SampledFrom([]string{"On", "On", "DetectionOnly"}).Draw(t, "engine")
	c.Audit = rapid.SampledFrom([]string{"On", "Off", "RelevantOnly", "RelevantOnly"}).Draw(t, "audit")
	if rapid.IntRange(0, 3).Draw(t, "ctlaudit") == 0 {
		c.CtlAudit = rapid.SampledFrom([]string{"On", "Off", "RelevantOnly"}).Draw(t, "ctlauditv")
	}
	c.Pattern = rapid.SampledFrom([]string{"^[45]", "^403$", "^(?:5|404)", "^2", "^999"}).Draw(t, "pattern")
	mid := "BCDEFGHIJK"
	var parts []byte
	for i := 0; i < len(mid); i++ {
		if rapid.Bool().Draw(t, "part") {
			parts = append(parts, mid[i])
		}
	}
	c.Parts = "A" + string(parts) + "Z"
	if rapid.IntRange(0, 2).Draw(t, "ctlparts") == 0 {
		switch rapid.IntRange(0, 2).Draw(t, "ctlpartskind") {
		case 0:
			c.CtlParts = "+" + rapid.SampledFrom([]string{"K", "E", "HK", "BCF", "J"}).Draw(t, "add")
		case 1:
			c.CtlParts = "-" + rapid.SampledFrom([]string{"K", "B", "HK", "C", "F"}).Draw(t, "del")
		default:
			c.CtlParts = rapid.SampledFrom([]string{"ABZ", "AHKZ", "AZ", "ABCFHKZ"}).Draw(t, "abs")
		}
	}
	c.Format = rapid.SampledFrom([]string{"JSON", "JSON", "Native", "Native", "JsonLegacy", "OCSF"}).Draw(t, "format")
	n := rapid.IntRange(1, 4).Draw(t, "nrules")
	flagSets := [][]string{{"log"}, {"nolog"}, {"nolog", "auditlog"}, {"log", "noauditlog"}, {"auditlog"}, {}, {"noauditlog"}, {"auditlog", "nolog"}, {"log", "nolog", "log"}}
	for i := 0; i < n; i++ {
		r := C19Rule{ID: 600 + i, Phase: rapid.IntRange(1, 5).Draw(t, "phase"), Flags: rapid.SampledFrom(flagSets).Draw(t, "flags"), Cond: rapid.Bool().Draw(t, "cond")}
		r.Msg = rapid.SampledFrom([]string{"", "simple", "with %{MATCHED_VAR}", "pipe|and]bracket[\""}).Draw(t, "msg")
		if !r.Cond && rapid.IntRange(0, 2).Draw(t, "multi") == 0 {
			r.Multi = true
		}
		c.Rules = append(c.Rules, r)
	}
	if rapid.Bool().Draw(t, "hasdeny") {
		c.Rules = append(c.Rules, C19Rule{ID: 650, Phase: rapid.IntRange(1, 4).Draw(t, "dphase"), Flags: rapid.SampledFrom(flagSets).Draw(t, "dflags"), Cond: rapid.Bool().Draw(t, "dcond"), Deny: true,
			St: rapid.SampledFrom([]int{0, 403, 404, 500, 200, 302}).Draw(t, "dstatus")})
		if rapid.IntRange(0, 2).Draw(t, "hasdeny2") == 0 {
			// a second disruptive rule with its own status: the first (real or would-be) interruption is the one that counts
			c.Rules = append(c.Rules, C19Rule{ID: 651, Phase: rapid.IntRange(1, 4).Draw(t, "dphase2"), Flags: rapid.SampledFrom(flagSets).Draw(t, "dflags2"), Cond: rapid.Bool().Draw(t, "dcond2"), Deny: true,
				St: rapid.SampledFrom([]int{0, 403, 404, 500, 200, 302, 406}).Draw(t, "dstatus2")})
		}
	}
	c.Hit = rapid.Bool().Draw(t, "hit")
	c.Warmup = rapid.IntRange(0, 2).Draw(t, "warmup") == 0
	c.RespPartial = rapid.IntRange(0, 3).Draw(t, "resppartial") == 0
	c.RespStatus = rapid.SampledFrom([]int{200, 404, 500, 302, 403}).Draw(t, "rstatus")
	c.HdrVal = rapid.SampledFrom(c19Hostile).Draw(t, "hdrval")
	c.Body = rapid.SampledFrom(c19Hostile).Draw(t, "body")
	return c
}

func (c *C19Case) conf(writer, target string) string {
	var sb strings.Builder
	fmt.Fprintf(&sb, "SecRuleEngine %s\nSecRequestBodyAccess On\nSecResponseBodyAccess On\nSecResponseBodyMimeType text/plain\nSecAuditEngine %s\nSecAuditLogRelevantStatus %s\nSecAuditLogParts %s\nSecAuditLogFormat %s\nSecAuditLogType %s\n",
		c.Engine, c.Audit, c.Pattern, c.Parts, c.Format, writer)
	if target != "" {
		fmt.Fprintf(&sb, "SecAuditLog %s\n", target)
	}
	if c.RespPartial && len(c.Body) > 0 {
		// the response body reaches its limit: the body phase is run by the write that fills the buffer, and the
		// connector's own ProcessResponseBody call follows
		fmt.Fprintf(&sb, "SecResponseBodyLimit %d\nSecResponseBodyLimitAction ProcessPartial\n", 1+len(c.Body)/2)
	}
	if c.CtlAudit != "" {
		fmt.Fprintf(&sb, "SecAction \"id:590,phase:1,pass,nolog,ctl:auditEngine=%s\"\n", c.CtlAudit)
	}
	if c.CtlParts != "" {
		fmt.Fprintf(&sb, "SecAction \"id:591,phase:1,pass,nolog,ctl:auditLogParts=%s\"\n", c.CtlParts)
	}
	for _, r := range c.Rules {
		acts := []string{fmt.Sprintf("id:%d", r.ID), fmt.Sprintf("phase:%d", r.Phase)}
		acts = append(acts, r.Flags...)
		if r.Msg != "" {
			acts = append(acts, "msg:'"+r.Msg+"'")
		}
		if r.Deny {
			if r.St != 0 {
				acts = append(acts, fmt.Sprintf("status:%d", r.St))
			}
			acts = append(acts, "deny")
		} else {
			acts = append(acts, "pass")
		}
		if r.Multi {
			fmt.Fprintf(&sb, "SecRule REQUEST_HEADERS \"@unconditionalMatch\" \"%s\"\n", strings.Join(acts, ","))
		} else if r.Cond {
			fmt.Fprintf(&sb, "SecRule REQUEST_HEADERS:X-Hit \"@streq 1\" \"%s\"\n", strings.Join(acts, ","))
		} else {
			fmt.Fprintf(&sb, "SecAction \"%s\"\n", strings.Join(acts, ","))
		}
	}
	return sb.String()
}

func applyPartsModel(base, mod string) string {
	if mod == "" {
		return base
	}
	if mod[0] != '+' && mod[0] != '-' {
		return mod
	}
	set := map[byte]bool{}
	for i := 0; i < len(base); i++ {
		set[base[i]] = true
	}
	for i := 1; i < len(mod); i++ {
		set[mod[i]] = mod[0] == '+'
	}
	out := ""
	for _, p := range []byte("ABCDEFGHIJKZ") {
		if set[p] {
			out += string(p)
		}
	}
	return out
}

type c19Expect struct {
	fired      []int // ids in firing order
	auditIDs   []int // fired with audit enabled
	logIDs     []int // fired with log enabled
	status     string
	records    int
	parts      string
	interrupts bool
}

func (c *C19Case) expect() c19Expect {
	e := c19Expect{}
	audit := c.Audit
	if c.CtlAudit != "" {
		audit = c.CtlAudit
	}
	e.parts = applyPartsModel(c.Parts, c.CtlParts)
	interrupted := 0 // status of the real or would-be interruption
	intrPhase := 0
	stopped := false
	for p := 1; p <= 5; p++ {
		for _, r := range c.Rules {
			if r.Phase != p {
				continue
			}
			if stopped && p != 5 {
				continue
			}
			if r.Cond && !c.Hit {
				continue
			}
			logf, auditf := p == 2, p == 2
			for _, f := range r.Flags {
				switch f {
				case "log":
					logf, auditf = true, true
				case "nolog":
					logf, auditf = false, false
				case "auditlog":
					auditf = true
				case "noauditlog":
					auditf = false
				}
			}
			e.fired = append(e.fired, r.ID)
			if auditf {
				e.auditIDs = append(e.auditIDs, r.ID)
			}
			if logf {
				e.logIDs = append(e.logIDs, r.ID)
			}
			if r.Deny && interrupted == 0 {
				st := r.St
				if st == 0 {
					st = 403
				}
				interrupted, intrPhase = st, p
				if c.Engine == "On" {
					stopped = true
					e.interrupts = true
				}
			}
		}
	}
	// status used by RelevantOnly: the real or would-be interruption status, else the response status
	switch {
	case interrupted != 0:
		e.status = fmt.Sprint(interrupted)
	case true:
		e.status = fmt.Sprint(c.RespStatus)
	}
	if e.interrupts && intrPhase <= 2 {
		// the response never happened
	}
	switch audit {
	case "On":
		e.records = 1
	case "Off":
		e.records = 0
	case "RelevantOnly":
		if regexp.MustCompile(c.Pattern).MatchString(e.status) {
			e.records = 1
		}
	}
	return e
}

func sortedInts(a []int) []int {
	b := append([]int(nil), a...)
	sort.Ints(b)
	return b
}

func checkC19(c *C19Case) Result {
	c19Setup()
	res := Result{}
	conf := c.conf("verifcapture", c19Target)
	var cbIDs []int
	var cbMu sync.Mutex
	w, err := coraza.NewWAF(coraza.NewWAFConfig().WithDirectives(conf).WithErrorCallback(func(mr types.MatchedRule) {
		cbMu.Lock()
		cbIDs = append(cbIDs, mr.Rule().ID())
		cbMu.Unlock()
	}))
	if err != nil {
		res.Fail = failf("configuration rejected: %v\n%s", err, conf)
		return res
	}
	defer closeWAF(w)
	exp := c.expect()
	txID := "tx-c19-" + fmt.Sprint(len(conf)) + "-id"
	capMu.Lock()
	captured = nil
	capMu.Unlock()
	var firedIDsGot []int
	doTx := func(id string) *Failure {
		return guard("transaction", func() {
			tx := w.NewTransactionWithID(id)
			defer func() { _ = tx.Close() }()
			tx.ProcessConnection("10.0.0.1", 1234, "10.0.0.2", 80)
			tx.ProcessURI("/p?q=1", "POST", "HTTP/1.1")
			tx.AddRequestHeader("Host", "h")
			tx.AddRequestHeader("X-Hostile", c.HdrVal)
			tx.AddRequestHeader("Content-Type", "application/x-www-form-urlencoded")
			if c.Hit {
				tx.AddRequestHeader("X-Hit", "1")
			}
			done := func() {
				tx.ProcessLogging()
				for _, mr := range tx.MatchedRules() {
					firedIDsGot = append(firedIDsGot, mr.Rule().ID())
				}
			}
			if it := tx.ProcessRequestHeaders(); it != nil {
				done()
				return
			}
			_, _, _ = tx.WriteRequestBody([]byte("b=" + c.Body))
			if it, _ := tx.ProcessRequestBody(); it != nil {
				done()
				return
			}
			tx.AddResponseHeader("Content-Type", "text/plain")
			tx.AddResponseHeader("X-Resp", c.HdrVal)
			if it := tx.ProcessResponseHeaders(c.RespStatus, "HTTP/1.1"); it != nil {
				done()
				return
			}
			_, _, _ = tx.WriteResponseBody([]byte(c.Body))
			_, _ = tx.ProcessResponseBody()
			done()
		})
	}
	if c.Warmup {
		// the same request has just been served and logged on this WAF: what it changed for itself (ctl:auditLogParts,
		// ctl:auditEngine) must not reach the transaction under test
		if f := doTx(txID + "-before"); f != nil {
			res.Fail = f
			return res
		}
		capMu.Lock()
		captured = nil
		capMu.Unlock()
		cbMu.Lock()
		cbIDs = nil
		cbMu.Unlock()
		firedIDsGot = nil
		res.Labels = append(res.Labels, "after-another-transaction")
	}
	if c.RespPartial && len(c.Body) > 0 {
		res.Labels = append(res.Labels, "response-body-reaches-its-limit")
	}
	if f := doTx(txID); f != nil {
		res.Fail = f
		return res
	}
	ctx := fmt.Sprintf("\nconfig:\n%shit header=%v response status=%d\nexpected: fired %v audit-enabled %v log-enabled %v status source %s parts %s", conf, c.Hit, c.RespStatus, exp.fired, exp.auditIDs, exp.logIDs, exp.status, exp.parts)
	// drop the ctl helper rules (nolog) from the fired list
	var firedRules []int
	for _, id := range firedIDsGot {
		if id >= 600 {
			firedRules = append(firedRules, id)
		}
	}
	if fmt.Sprint(firedRules) != fmt.Sprint(exp.fired) {
		res.Fail = failf("fired rules %v, the decision table expects %v (a rule evaluated twice, not at all, or in another order)%s", firedRules, exp.fired, ctx)
		return res
	}
	capMu.Lock()
	recs := append([]capturedRecord(nil), captured...)
	capMu.Unlock()
	if len(recs) != exp.records {
		res.Fail = failf("%d audit records written, the decision table says %d%s", len(recs), exp.records, ctx)
		return res
	}
	// error callback: exactly once per fired rule with logging enabled
	if fmt.Sprint(sortedInts(cbIDs)) != fmt.Sprint(sortedInts(exp.logIDs)) {
		res.Fail = failf("error callback invoked for rules %v, expected exactly once for each of %v%s", cbIDs, exp.logIDs, ctx)
		return res
	}
	for _, rec := range recs {
		if rec.TxID != txID {
			res.Fail = failf("audit record carries transaction id %q, expected %q%s", rec.TxID, txID, ctx)
			return res
		}
		if rec.Parts != exp.parts {
			res.Fail = failf("audit record has parts %q, expected %q%s", rec.Parts, exp.parts, ctx)
			return res
		}
		if rec.FmtErr != nil {
			res.Fail = failf("formatter %s failed: %v%s", c.Format, rec.FmtErr, ctx)
			return res
		}
		hasK := strings.Contains(exp.parts, "K")
		hasH := strings.Contains(exp.parts, "H")
		if hasK {
			var ids []int
			seen := map[int]bool{}
			for _, id := range rec.RuleIDs {
				if !seen[id] {
					ids = append(ids, id)
					seen[id] = true
				}
			}
			if fmt.Sprint(sortedInts(ids)) != fmt.Sprint(sortedInts(exp.auditIDs)) {
				res.Fail = failf("part K lists rules %v, the fired audit-enabled rules are %v%s", ids, exp.auditIDs, ctx)
				return res
			}
		} else if hasH {
			if len(rec.RuleIDs) != len(exp.auditIDs) {
				res.Fail = failf("part H carries %d messages, %d audit-enabled rules fired%s", len(rec.RuleIDs), len(exp.auditIDs), ctx)
				return res
			}
		}
		// well-formedness in the configured format
		switch c.Format {
		case "JSON", "JsonLegacy", "OCSF":
			if strings.ContainsAny(string(rec.Formatted), "\n\r") {
				res.Fail = failf("%s record spans more than one line: %q%s", c.Format, rec.Formatted, ctx)
				return res
			}
			var doc map[string]any
			if err := json.Unmarshal(rec.Formatted, &doc); err != nil {
				res.Fail = failf("%s record does not parse: %v: %q%s", c.Format, err, rec.Formatted, ctx)
				return res
			}
			if c.Format == "JSON" {
				tr, _ := doc["transaction"].(map[string]any)
				if tr == nil || tr["id"] != txID {
					res.Fail = failf("JSON record transaction.id = %v, expected %q%s", tr["id"], txID, ctx)
					return res
				}
			}
		case "Native":
			if msg := checkNative(rec.Formatted, exp.parts, txID); msg != "" {
				res.Fail = failf("native record malformed: %s\n%q%s", msg, rec.Formatted, ctx)
				return res
			}
		}
	}
	// labels
	res.Labels = append(res.Labels, "audit:"+c.Audit, "format:"+c.Format, "engine:"+c.Engine, fmt.Sprintf("records:%d", exp.records))
	if c.CtlAudit != "" {
		res.Labels = append(res.Labels, "ctl-auditEngine")
	}
	if c.CtlParts != "" {
		res.Labels = append(res.Labels, "ctl-auditLogParts:"+c.CtlParts[:1])
	}
	if exp.interrupts {
		res.Labels = append(res.Labels, "interrupted")
	}
	if c.Engine == "DetectionOnly" && exp.status != fmt.Sprint(c.RespStatus) {
		res.Labels = append(res.Labels, "would-be-interruption-status")
	}
	if len(exp.auditIDs) != len(exp.logIDs) {
		res.Labels = append(res.Labels, "log-and-audit-flags-differ")
	}
	for _, r := range c.Rules {
		if r.Multi {
			res.Labels = append(res.Labels, "multi-value-rule")
			break
		}
	}
	hostile := c.HdrVal != "plain" || c.Body != "plain"
	if hostile && len(recs) > 0 {
		res.Labels = append(res.Labels, "hostile-bytes-logged")
	}
	// the case distinguishes two rows of the table when flipping the status source flips the count
	res.NonTrivial = c.Audit == "RelevantOnly" || c.CtlAudit != "" || (hostile && len(recs) > 0) || len(exp.auditIDs) != len(exp.logIDs)
	return res
}

var reBoundary = regexp.MustCompile(`^--([A-Za-z0-9]+)-([A-Z])--$`)

func checkNative(b []byte, parts, txID string) string {
	sc := bufio.NewScanner(strings.NewReader(string(b)))
	sc.Buffer(make([]byte, 1<<20), 1<<20)
	id := ""
	var seq []byte
	lineNo := 0
	aLine := ""
	prevWasA := false
	for sc.Scan() {
		l := sc.Text()
		lineNo++
		if m := reBoundary.FindStringSubmatch(l); m != nil {
			if id == "" {
				id = m[1]
			}
			if m[1] == id {
				seq = append(seq, m[2][0])
				prevWasA = m[2] == "A"
				continue
			}
		}
		if prevWasA {
			aLine = l
			prevWasA = false
		}
	}
	if lineNo == 0 {
		return "empty record"
	}
	if string(seq) != parts {
		return fmt.Sprintf("sections %q, configured parts %q", seq, parts)
	}
	if !strings.HasPrefix(parts, "A") || !strings.HasSuffix(parts, "Z") {
		return fmt.Sprintf("record does not start with A and end with Z: %q", parts)
	}
	if !strings.Contains(aLine, txID) {
		return fmt.Sprintf("section A %q does not carry the transaction id %q", aLine, txID)
	}
	return ""
}

func TestC19(t *testing.T) {
	runProp(t, "C19", genC19, checkC19)
}

// ---- concurrent transactions sharing one serial writer -----------------------------------------------

type C19ConcCase struct {
	Goroutines int    `json:"goroutines"`
	PerG       int    `json:"per_goroutine"`
	Format     string `json:"format"`
	Writer     string `json:"writer"`
	HdrVal     string `json:"header_value"`
}

func genC19Conc(t *rapid.T) *C19ConcCase {
	return &C19ConcCase{Goroutines: rapid.SampledFrom([]int{2, 4, 8}).Draw(t, "g"), PerG: rapid.IntRange(3, 15).Draw(t, "perg"),
		Format: rapid.SampledFrom([]string{"JSON", "Native"}).Draw(t, "format"), Writer: rapid.SampledFrom([]string{"Serial", "Concurrent", "HTTPS"}).Draw(t, "writer"),
		HdrVal: rapid.SampledFrom(c19Hostile).Draw(t, "hdr")}
}

var c19ConcSeq int

func checkC19Conc(c *C19ConcCase) Result {
	res := Result{}
	c19ConcSeq++
	dir := filepath.Join(privateTmp, fmt.Sprintf("c19conc-%d", c19ConcSeq))
	_ = os.MkdirAll(dir, 0o755)
	defer os.RemoveAll(dir)
	target := filepath.Join(dir, "audit.log")
	// HTTPS writer: every record is POSTed to a collector in this process
	var bodies [][]byte
	var bmu sync.Mutex
	if c.Writer == "HTTPS" {
		var srv *httptest.Server
		if f := guard("collector", func() {
			srv = httptest.NewServer(http.HandlerFunc(func(rw http.ResponseWriter, r *http.Request) {
				b, _ := io.ReadAll(r.Body)
				bmu.Lock()
				bodies = append(bodies, b)
				bmu.Unlock()
				rw.WriteHeader(200)
			}))
		}); f != nil {
			// no free port for the collector: nothing was learnt
			res.Labels = append(res.Labels, "infrastructure:no-free-port")
			return res
		}
		defer srv.Close()
		target = srv.URL + "/audit"
	}
	conf := fmt.Sprintf("SecRuleEngine On\nSecAuditEngine On\nSecAuditLogParts ABHKZ\nSecAuditLogFormat %s\nSecAuditLogType %s\nSecAuditLog %s\nSecAuditLogStorageDir %s\nSecAction \"id:1,phase:1,log,auditlog,pass,msg:'m'\"\n",
		c.Format, c.Writer, target, dir)
	w, err := newWAF(conf)
	if err != nil {
		res.Fail = failf("configuration rejected: %v\n%s", err, conf)
		return res
	}
	var wg sync.WaitGroup
	want := map[string]bool{}
	var panics []string
	var pmu sync.Mutex
	for g := 0; g < c.Goroutines; g++ {
		for k := 0; k < c.PerG; k++ {
			want[fmt.Sprintf("cc%dx%dx%d", c19ConcSeq, g, k)] = true
		}
		wg.Add(1)
		go func(g int) {
			defer wg.Done()
			defer func() {
				if r := recover(); r != nil {
					pmu.Lock()
					panics = append(panics, fmt.Sprint(r))
					pmu.Unlock()
				}
			}()
			for k := 0; k < c.PerG; k++ {
				tx := w.NewTransactionWithID(fmt.Sprintf("cc%dx%dx%d", c19ConcSeq, g, k))
				tx.ProcessURI("/p", "GET", "HTTP/1.1")
				tx.AddRequestHeader("X-Hostile", c.HdrVal)
				tx.ProcessRequestHeaders()
				tx.ProcessLogging()
				_ = tx.Close()
			}
		}(g)
	}
	wg.Wait()
	closeWAF(w)
	if len(panics) > 0 {
		res.Fail = failf("panic while logging concurrently: %v", panics)
		return res
	}
	data, _ := os.ReadFile(target)
	got := map[string]int{}
	switch {
	case c.Writer == "HTTPS":
		// each POST body is one record. The writer gives up after 1 s, so on a busy machine a record may
		// legitimately be missing; a damaged, foreign or repeated record is never legitimate.
		bmu.Lock()
		defer bmu.Unlock()
		for _, b := range bodies {
			id := ""
			if c.Format == "JSON" {
				var doc map[string]any
				if err := json.Unmarshal(b, &doc); err != nil {
					res.Fail = failf("record received by the HTTPS collector does not parse (damaged while in flight): %v: %q", err, b)
					return res
				}
				tr, _ := doc["transaction"].(map[string]any)
				id = fmt.Sprint(tr["id"])
			} else {
				if msg := checkNative(b, "ABHKZ", ""); msg != "" {
					res.Fail = failf("native record received by the HTTPS collector is damaged: %s: %q", msg, b)
					return res
				}
				for _, l := range strings.Split(string(b), "\n") {
					if f := strings.Fields(l); len(f) >= 3 && strings.HasPrefix(f[2], "cc") {
						id = f[2]
						break
					}
				}
			}
			if !want[id] {
				res.Fail = failf("HTTPS collector received a record for unknown transaction %q: %q", id, b)
				return res
			}
			got[id]++
			if got[id] > 1 {
				res.Fail = failf("transaction %s was delivered %d times to the HTTPS collector", id, got[id])
				return res
			}
		}
		if len(got) < len(want) {
			res.Labels = append(res.Labels, "https-record-missing(timeout)")
		}
		res.NonTrivial = true
		res.Labels = append(res.Labels, "concurrent:"+c.Writer+"/"+c.Format)
		statExtra("concurrent-transactions", int64(len(want)))
		return res
	case c.Writer == "Serial" && c.Format == "JSON":
		for _, l := range strings.Split(strings.TrimRight(string(data), "\n"), "\n") {
			var doc map[string]any
			if err := json.Unmarshal([]byte(l), &doc); err != nil {
				res.Fail = failf("line of the shared audit log does not parse (interleaved or truncated record): %v: %q", err, l)
				return res
			}
			tr, _ := doc["transaction"].(map[string]any)
			got[fmt.Sprint(tr["id"])]++
		}
	case c.Writer == "Serial":
		// native: every record is a contiguous block A ... Z with one boundary id
		cur, curTx := "", ""
		for _, l := range strings.Split(string(data), "\n") {
			if m := reBoundary.FindStringSubmatch(l); m != nil {
				// inside an open record only lines carrying ITS random boundary id are structural;
				// anything else (logged data that looks like a boundary) is content
				switch {
				case cur == "" && m[2] == "A":
					cur = m[1]
					continue
				case cur != "" && m[1] == cur && m[2] == "Z":
					got[curTx]++
					cur, curTx = "", ""
					continue
				case cur != "" && m[1] == cur:
					continue
				}
			}
			if cur != "" && curTx == "" {
				f := strings.Fields(l)
				if len(f) >= 3 {
					curTx = f[2]
				}
			}
		}
	default:
		// concurrent writer: one index line per transaction, one file per transaction
		for _, l := range strings.Split(string(data), "\n") {
			for id := range want {
				if strings.Contains(l, id+" - ") {
					got[id]++
					path := l[strings.Index(l, id+" - ")+len(id)+3:]
					if _, err := os.Stat(strings.TrimSpace(path)); err != nil {
						res.Fail = failf("index line names a file that does not exist: %q", l)
						return res
					}
				}
			}
		}
	}
	for id := range want {
		if got[id] != 1 {
			res.Fail = failf("transaction %s has %d records in the shared %s/%s audit log, expected exactly 1 (%d transactions in total)", id, got[id], c.Writer, c.Format, len(want))
			return res
		}
	}
	if len(got) != len(want) {
		res.Fail = failf("%d distinct records, %d transactions", len(got), len(want))
		return res
	}
	res.NonTrivial = true
	res.Labels = append(res.Labels, "concurrent:"+c.Writer+"/"+c.Format)
	statExtra("concurrent-transactions", int64(len(want)))
	return res
}

func TestC19Conc(t *testing.T) {
	runProp(t, "C19C", genC19Conc, checkC19Conc)
}

func init() {
	registerReplay("C19", func(c *C19Case) *Failure { return checkC19(c).Fail })
	registerReplay("C19C", func(c *C19ConcCase) *Failure { return checkC19Conc(c).Fail })
}
