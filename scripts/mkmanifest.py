#!/usr/bin/env python3
"""Regenerates MANIFEST.json's checks / not_applicable from scripts/props.py and scripts/manifest_meta.py."""
import json, os, sys
ROOT = os.path.dirname(os.path.dirname(os.path.abspath(__file__)))
sys.path.insert(0, os.path.join(ROOT, "scripts"))
from props import PROPS
from manifest_meta import META, NOT_APPLICABLE
m = json.load(open(os.path.join(ROOT, "MANIFEST.json")))
checks = []
for pid in sorted(PROPS):
    meta = META[pid]
    checks.append({
        "property_id": pid,
        "quick_cmd": "./verif check %s --tier quick" % pid,
        "thorough_cmd": "./verif check %s --tier thorough" % pid,
        "evidence_file": "/verif/evidence/%s.json" % pid,
        "replay_cmd_template": "./verif replay %s {path}" % pid,
        "engine": "harness",
        "level_claimed": {"category": PROPS[pid]["level"], "text": meta["text"], "design_ref": meta["design_ref"]},
        "level_note": meta["note"],
        "technique": meta["technique"],
    })
m["checks"] = checks
ids = [l and json.loads(l)["id"] for l in open(os.path.join(ROOT, "properties.jsonl")) if l.strip()]
m["not_applicable"] = [{"property_id": i, "reason": NOT_APPLICABLE.get(i, "check not built yet in this session (work in progress); see DESIGN.md")} for i in ids if i not in PROPS]
m["engines"][0]["serves_properties"] = sorted(PROPS)
json.dump(m, open(os.path.join(ROOT, "MANIFEST.json"), "w"), indent=1)
print("checks:", [c["property_id"] for c in checks])
