#!/usr/bin/env python3
"""usage: scripts/seed_prompt.py <ID> <worktree> <deliverables dir> [previous seed names...]
Prints the task text given to a seeding sub-agent: only the text of one property (id, title, statement, what it
quantifies over), its scratch worktree and, from the second round on, one-line summaries of the earlier changes
for the same property (written by earlier sub-agents, not by /verif). Nothing from /verif is included."""
import json, sys
pid, wt, out = sys.argv[1], sys.argv[2], sys.argv[3]
prev = sys.argv[4:]
prop = [json.loads(l) for l in open('/verif/properties.jsonl') if json.loads(l)['id'] == pid][0]
print(f"""You are helping to evaluate a verification effort for the Go library OWASP Coraza (module github.com/corazawaf/coraza/v3), a web application firewall that parses ModSecurity SecLang rules.

You have your own scratch git worktree of the repository at: {wt}
Work ONLY inside that directory and in the deliverables directory {out} (never touch /repo or /verif, never commit anything, never read /verif).

Environment: no network. Use the default `go` with these variables exported in every shell call:
  export GOFLAGS=-mod=mod GOPROXY=off GOWORK=off
(do NOT set GOSUMDB or GOTOOLCHAIN). The repository's own test suite is run with, from the worktree root:
  go test -vet=off -count=1 ./...        (about 1.5 minutes; the two tests TestConcurrentWriterFailsOnInit and TestSerialWriterFailsOnInitForUnexistingFile in internal/auditlog fail on the unmodified tree already - ignore those two; http/e2e timing tests may fail when the machine is busy - re-run that package alone)
and, for the nested module:
  cd {wt}/testing/coreruleset && go test -vet=off -count=1 ./...     (about 1 minute)
Both must pass with your change applied. If `git status` shows go.sum modified by the go tool, restore it with `git checkout go.sum` before producing the patch. Never use `git stash` (it is shared between worktrees); switch directions with `git apply -R <patch>` / `git apply <patch>`.

Here is ONE semantic property the library is supposed to satisfy:

ID: {prop['id']}
TITLE: {prop['title']}

STATEMENT: {prop['statement']}

QUANTIFIED OVER: {prop['quantifier']['text']}


YOUR TASK: write ONE realistic change (a plausible regression a developer could introduce: an off-by-one, a dropped reset, a wrong condition, an optimisation that is unsound in a corner, two cooperating edits that each look fine alone, ...) to the NON-test source code of the library in your worktree that
  (1) still compiles,
  (2) still passes the repository's existing test suites named above - you must actually run them,
  (3) BREAKS the property above, and
  (4) needs something SPECIFIC to manifest - a particular interleaving, a fault at a particular point, a multi-step sequence of operations, an unusual input shape, a particular combination of configuration and input - rather than something ordinary use would expose at once. Prefer subtle over blatant. Do not add randomness, timers, environment checks or magic-constant backdoors; the change must look like an honest mistake or an honest optimisation.

Then write a DEMONSTRATION: a small Go test file (package of your choice inside the module, e.g. a test in the root package using the public API coraza.NewWAF / transactions) that FAILS with your change applied and PASSES on the unmodified tree. Verify both directions yourself.
""")
if prev:
    print("Earlier experiments already produced these changes for the same property. Yours must use a DIFFERENT mechanism in different functions, need a different kind of input / sequence to manifest, and aim at a part of the statement they do not touch:")
    for n in prev:
        m = json.load(open(f'/verif/seeded/{n}/meta.json'))
        print(f"  - {m['summary']} (files: {', '.join(m.get('files_changed', []))})")
    print()
print(f"""Deliverables - create the directory {out}/ (deliberately OUTSIDE the module, so that `go test ./...` does not compile the copy) containing:
  - patch.diff   : `git diff` of the library source change ONLY (not the demo test, not go.sum)
  - demo_test.go : a copy of the demonstration test file, with a first-line comment saying at which path inside the module it must be placed to run and the exact `go test` command to run it
  - meta.json    : {{"property": "<ID>", "summary": "<one or two sentences: what the change does>", "needs": "<what specific input / sequence / interleaving / fault is needed for it to manifest>", "files_changed": [...], "existing_tests_run": "<the go test commands you ran and their outcome>", "demo_fails_with_change": true, "demo_passes_without_change": true}}
Leave the worktree with the source change APPLIED and the demo test in place.

Your final answer must be SHORT (5-10 lines): the summary, what it needs to manifest, and confirmation of the two demo directions and of the existing tests. Do not paste the diff. If, while reading the code, you notice behaviour of the UNMODIFIED tree that already violates the property, mention it in one or two lines at the end (input and observed behaviour).""")
