#!/bin/bash
# Runs the repository's pinned baseline suite with no verification hooks involved
# (there are no source hooks; the guard tag "verif" is reserved and unused).
# Same command as /root/.vp/BASELINE.json.
set -u
export GOPROXY=off
rc=0
for m in . ./testing/coreruleset; do
  MF=""
  gw=$(cd /repo/$m && go env GOWORK 2>/dev/null)
  if [ -z "$gw" ] || [ "$gw" = off ]; then MF="-mod=mod"; fi
  (cd /repo/$m && go test $MF -json -vet=off -count=1 -timeout 25m ./...) || rc=$?
done
exit $rc
