#!/bin/bash
# usage: scripts/seeded_queue.sh <parallelism> ID...   — evaluates /tmp/seed-<ID>/SEEDED as seeded/<ID>-a
par=$1; shift
printf '%s\n' "$@" | xargs -P "$par" -I{} sh -c 'python3 /verif/scripts/seeded_eval.py {} /tmp/seed-{}/SEEDED {}-a > /verif/.work/seed-{}.out 2>&1'
