#!/bin/bash
# usage: scripts/seeded_queue.sh <parallelism> <suffix a|b> ID...
#   suffix a: evaluates /tmp/seed-<ID>/SEEDED as seeded/<ID>-a ; suffix b: /tmp/seed2-<ID>-SEEDED as seeded/<ID>-b
par=$1; suf=$2; shift 2
if [ "$suf" = a ]; then pat='/tmp/seed-{}/SEEDED'; else pat='/tmp/seed2-{}-SEEDED'; fi
printf '%s\n' "$@" | xargs -P "$par" -I{} sh -c "python3 /verif/scripts/seeded_eval.py {} $pat {}-$suf > /verif/.work/seed-{}-$suf.out 2>&1"
