#!/usr/bin/env python3
"""Runs scripts/baseline.sh and compares the passing tests with BASELINE.json's stable_pass."""
import json, subprocess, sys
base = json.load(open('/root/.vp/BASELINE.json'))
stable = set(base['stable_pass'])
p = subprocess.run(['/verif/scripts/baseline.sh'], stdout=subprocess.PIPE, stderr=subprocess.STDOUT, text=True)
passed, failed = set(), set()
for line in p.stdout.splitlines():
    try:
        e = json.loads(line)
    except Exception:
        continue
    if 'Test' not in e:
        continue
    k = '%s::%s' % (e['Package'], e['Test'])
    if e.get('Action') == 'pass':
        passed.add(k)
    elif e.get('Action') == 'fail':
        failed.add(k)
missing = sorted(stable - passed)
print('passed', len(passed), 'failed', len(failed), 'stable missing', len(missing))
for m in missing[:40]:
    print('  MISSING', m)
for f in sorted(failed)[:40]:
    print('  FAILED', f)
sys.exit(1 if missing else 0)
