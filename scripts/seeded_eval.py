#!/usr/bin/env python3
"""usage: scripts/seeded_eval.py <ID> <deliverable dir> [name]
Confirms a sub-agent's seeded change (scripts/seeded_confirm.sh), runs the target property's quick check against it in a
scratch worktree (scripts/mutant.sh), on a miss also the other properties' quick checks and the target's thorough tier,
and stores everything under /verif/seeded/<name>/."""
import json, os, re, shutil, subprocess, sys
ROOT = os.path.dirname(os.path.dirname(os.path.abspath(__file__)))
pid, src = sys.argv[1], sys.argv[2]
name = sys.argv[3] if len(sys.argv) > 3 else pid + "-a"
dst = os.path.join(ROOT, "seeded", name)
os.makedirs(dst, exist_ok=True)
recheck = os.path.abspath(src) == os.path.abspath(dst)   # re-run the checks of an already stored seed
if not recheck:
    for f in ("patch.diff", "demo_test.go", "meta.json"):
        shutil.copy(os.path.join(src, f), os.path.join(dst, f))
meta = json.load(open(os.path.join(dst, "meta.json")))
if recheck and meta.get("confirmed_by_maintainer_of_verif"):
    meta.setdefault("earlier_check_results", []).append({"checks_run": meta.get("checks_run"), "detected_by": meta.get("detected_by")})
    conf = "\n".join(meta.get("confirmation_log", [])) + "\nCONFIRMED " + name
else:
  conf = subprocess.run([os.path.join(ROOT, "scripts/seeded_confirm.sh"), name, dst], stdout=subprocess.PIPE, stderr=subprocess.STDOUT, text=True).stdout
confirmed = "CONFIRMED " + name in conf
meta["confirmed_by_maintainer_of_verif"] = confirmed
meta["confirmation_log"] = conf.strip().splitlines()[-3:]
results = {}
def run(prop, tier="quick"):
    out = subprocess.run([os.path.join(ROOT, "scripts/mutant.sh"), "%s-%s-%s" % (name, prop, tier), os.path.join(dst, "patch.diff"), prop, tier],
                         stdout=subprocess.PIPE, stderr=subprocess.STDOUT, text=True).stdout
    m = re.search(r"MUTANT \S+ on (\S+): (DETECTED|MISSED|INCONCLUSIVE)(.*)", out)
    return (m.group(2), m.group(3).strip()[:300]) if m else ("ERROR", out[-300:])
if confirmed:
    results[pid + ":quick"] = run(pid)
    if results[pid + ":quick"][0] != "DETECTED":
        sys.path.insert(0, os.path.join(ROOT, "scripts"))
        from props import PROPS
        # related properties' quick checks only when asked for (SEEDED_OTHERS="C08 C13" or "all")
        wanted = os.environ.get("SEEDED_OTHERS", "").split()
        for other in sorted(PROPS):
            if other != pid and (other in wanted or "all" in wanted):
                r = run(other)
                if r[0] == "DETECTED":
                    results[other + ":quick"] = r
        if not any(v[0] == "DETECTED" for v in results.values()) and os.environ.get("SEEDED_THOROUGH", "1") == "1":
            results[pid + ":thorough"] = run(pid, "thorough")
meta["checks_run"] = {k: {"verdict": v[0], "detail": v[1]} for k, v in results.items()}
meta["detected_by"] = sorted(k for k, v in results.items() if v[0] == "DETECTED")
json.dump(meta, open(os.path.join(dst, "meta.json"), "w"), indent=1)
print(name, "confirmed" if confirmed else "REJECTED", "detected_by", meta["detected_by"], {k: v[0] for k, v in results.items()})
