"""Per-property run configuration for the ./verif driver.

Each property has one or more *runs*: a rapid test function in the harness binary, the number
of cases per shard and the number of shard processes for each tier, and the build variant.
"""


def run(test, quick, thorough, variant="default", tiers=("quick", "thorough"), **kw):
    """quick/thorough = (checks per shard, shards)"""
    d = {
        "test": test,
        "checks": {"quick": quick[0], "thorough": thorough[0]},
        "shards": {"quick": quick[1], "thorough": thorough[1]},
        "variant": variant,
        "tiers": tiers,
    }
    d.update(kw)
    return d


COMMON_ASSUME = [
    "rapid v1.3.0 generators and shrinking; Go toolchain and race detector as installed",
    "the harness is compiled against /repo's working tree through a replace directive (internal packages imported by path)",
    "generated-input search never proves absence: the claim covers only the cases generated, counted above",
]

RACE_ENV = {"GORACE": "halt_on_error=1 exitcode=66"}
PROPS = {}

PROPS["C14"] = {
    "level": "exploration",
    "fuzz": [('FuzzC14', 120), ('FuzzC14R', 90)],
    "runs": [
        run("TestC14Direct", (100000, 8), (1500000, 16)),
        run("TestC14Rule", (6000, 8), (150000, 16)),
    ],
    "rule": "cases = (registered transformation name scraped from the tree, byte string of length 0..64 built from "
            "escape-alphabet fragments, truncated escapes, runs and raw bytes) for direct calls, and (list of 1..4 "
            "transformations, byte string) evaluated through a real rule with and without multiMatch; a direct case is "
            "non-trivial when the input contains a byte of that transformation's trigger alphabet (the slow path runs), a "
            "rule case when some transformation changed the value; distinct = distinct (name, input) / case encodings",
    "essential": {"all": ["truncated-escape-at-end", "multimatch>=3-values"]},
    "assumptions": COMMON_ASSUME + [
        "crypto/md5, crypto/sha1, strconv as the standard definitions; ASCII definition of lower/upper case on ASCII inputs only",
    ],
}

PROPS["C08"] = {
    "level": "exploration",
    "runs": [run("TestC08", (12000, 8), (250000, 16))],
    "rule": "cases = rule sets of 4..12 items over all five phases (tracer SecActions, conditional skip:N / skipAfter:M with M present "
            "after, before or absent / allow, allow:phase, allow:request / chains of 1..3 links carrying a flow or disruptive action on the "
            "starter / deny rules, markers) x a request that switches each condition on or off x engine On|DetectionOnly, in three cases of five after another "
            "transaction on the same WAF (the same request, or one with every condition on, which leaves whatever skip / allow state the rules can produce), compared with "
            "the reference evaluator (fired ids in order, match data, interruption, per-phase return values); non-trivial = a flow "
            "action fired, at least one rule was skipped by it and at least one rule was evaluated afterwards; distinct = distinct case encodings",
    "essential": {"all": ["skipped-by-skip", "skipped-by-skipAfter", "stopped-by-allow:all", "stopped-by-allow:phase", "stopped-by-allow:request",
                          "marker-not-found-in-phase", "skip-larger-than-remaining-rules", "phase-5-rule-after-allow", "engine:DetectionOnly",
                          "allow-request-raised-after-request-phases", "after-another-transaction"]},
    "assumptions": COMMON_ASSUME + [
        "reference evaluator written from the action documentation (spec ledger in DESIGN.md 3.3); markers inside a skip window and bare allow in "
        "phase 5 are undocumented and excluded by construction; allow:request raised in phases 3-5 is generated and modelled as covering "
        "no later phase (the property: nothing but the documented scope reaches a later phase; the logging phase always runs)",
    ],
}

PROPS["C02"] = {
    "level": "exploration",
    "runs": [run("TestC02", (9000, 8), (200000, 16))],
    "rule": "cases = rule sets with 0..4 tracer / disruptive rules per phase (deny, drop, redirect, block with and without SecDefaultAction, "
            "several disruptive actions in one rule, optional ctl:ruleEngine switch as last rule of a phase) x engine On|DetectionOnly|Off x "
            "request switching conditions x API-call script (canonical, or mutated by repeating / skipping / swapping calls and extra body "
            "writes, <=16 calls; in a quarter of the cases 1-4 further phase / body calls after the logging phase); oracle = history invariants I1-I5 plus the reference evaluator for canonical scripts; non-trivial = a "
            "disruptive rule fired and (the script is anomalous or the rule was not the first to fire); distinct = distinct case encodings",
    "essential": {"all": ["anomalous-script", "canonical-script", "limit-reject-configured", "interrupted-by-body-limit", "engine:DetectionOnly", "engine:Off", "disruptive-fired:deny",
                          "disruptive-fired:drop", "disruptive-fired:redirect", "block-inherits-default", "ctl-ruleEngine-switch",
                          "phase5-after-interruption", "detectiononly+reject-configured", "after-another-transaction", "phase-calls-after-logging"]},
    "assumptions": COMMON_ASSUME + [
        "ctl:ruleEngine switches are generated only as the last rule of a phase (mid-phase behaviour is not stated by the property)",
        "body limits are far above the generated body sizes (C10 owns limit interruptions)",
    ],
}

PROPS["C09"] = {
    "level": "exploration",
    "runs": [run("TestC09", (12000, 8), (250000, 16))],
    "rule": "cases = scoring rule sets (2..7 rules in any phase; targets matching 0..k request values; setvar +N/-N/+%{tx.w}, assignments, "
            "deletions, flag form, keys built from %{rule.id} and %{MATCHED_VAR_NAME}; severity; msg/logdata macros; chains; multiMatch with "
            "transformations that may return their input (length, urlDecode, hexEncode), match data compared as multisets; setvar names made of "
            "one macro; a capturing @rx rule over the values of one name whose groups take part in some matches only, with actions copying %{tx.0-2}; "
            "threshold rules on TX:score / TX:acc) x requests with repeated and case-variant argument names; oracle = reference evaluator "
            "(final TX map, fired ids, match data, interruption, HIGHEST_SEVERITY, message expansion) and the accounting identity "
            "tx.acc == sum(increment x observed matches); non-trivial = some rule carrying actions matched >= 2 values; distinct = distinct encodings",
    "essential": {"all": ["rule>=2-matches", "chain-starter>=2-matches", "multimatch>=2-matches", "macro-key", "signed-macro-operand", "threshold-rule-blocked",
                          "severity-set", "accounting-identity-checked", "msg-macro-checked", "engine:DetectionOnly", "on-recycled-transaction",
                          "captures-read-by-actions", "setvar-name-from-a-macro"]},
    "assumptions": COMMON_ASSUME + [
        "order-sensitive effects over several matches (assigning %{MATCHED_VAR}) and arithmetic on non-numeric values are not generated",
        "MATCHED_VAR* macros inside SecAction are not generated (undocumented)",
    ],
}

PROPS["C01"] = {
    "level": "exploration",
    "runs": [run("TestC01", (9000, 8), (200000, 16))],
    "rule": "cases = 1..6 rules in any phase over 17 request/response variables; 1..3 targets each with no selector, a string key (case "
            "varied) or a regex key; '&' counts; 0..2 exclusions (!VAR, !VAR:key, !VAR:/re/); 0..3 transformations; 15 operators with "
            "arguments cut from request values; '!' negation; chains of 1..3; multiMatch x requests with duplicate, case-variant and empty "
            "names, the same name in GET and POST, non-UTF-8 values; oracle = reference evaluator (fired ids in order + per rule the "
            "multiset of (variable, key, value)); non-trivial = some but not all rules fire and the case has a selector / exclusion / "
            "count / chain / multiMatch or a duplicated name; distinct = distinct case encodings",
    "essential": {"all": ["string-key", "regex-key", "count", "exclusion", "chain", "multiMatch", "dup-or-case-variant-name",
                          "same-key-in-GET-and-POST", "empty-name", "non-utf8-value"]},
    "assumptions": COMMON_ASSUME + [
        "reference evaluator (DESIGN.md 3.3); regex keys are generated without upper-case-sensitive escapes; exclusions name a variable of the target list",
        "operator arguments and keys restricted to bytes that need no quoting (C16 owns the directive syntax)",
    ],
}

PROPS["C15"] = {
    "level": "exploration",
    "fuzz": [('FuzzC15', 180)],
    "runs": [run("TestC15Direct", (100000, 8), (1500000, 16)), run("TestC15Rule", (6000, 8), (100000, 16))],
    "rule": "cases = (operator, argument, input) generated together within one edit of the decision boundary: string operators with literal "
            "and %{tx.k} arguments, numeric comparisons of neighbouring integers, @pm / @pmFromDataset / @pmFromFile phrase lists (case mixed, "
            "prefixes of one another, phrase at the very end, input shorter than the shortest phrase, many hits), @ipMatch CIDR lists with "
            "boundary addresses, byte ranges touching 0 and 255, %XX strings with truncations, valid/invalid UTF-8, @rx patterns with up to "
            "12 groups; each compared with a naive executable definition, captures TX.0-9 included; the rule-level run checks that '!' is "
            "the exact complement; every case is counted non-trivial (generated at the boundary); distinct = distinct (op, arg, input, flags)",
    "essential": {"all": ["match:pm", "nomatch:pm", "match:pmFromFile", "match:pmFromDataset", "match:ipMatch", "nomatch:ipMatch", "match:validateByteRange",
                          "nomatch:validateByteRange", "match:validateUrlEncoding", "nomatch:validateUrlEncoding", "match:validateUtf8Encoding",
                          "match:rx", "nomatch:rx", "rx-with-prefilter", "capture-checked", "capture-10-groups", "capture-group-outside-the-match", "macro-argument", "match:within", "match:streq", "nomatch:streq"]},
    "assumptions": COMMON_ASSUME + [
        "Go's regexp with (?sm) is the trusted base for @rx; net.ParseCIDR for IPv6 networks; @pm captures are checked with a validity predicate "
        "(overlapping hits are allowed: the matcher's iteration order is not documented)",
    ],
}

PROPS["C11"] = {
    "level": "exploration",
    "fuzz": [('FuzzC11', 180)],
    "runs": [run("TestC11", (25000, 8), (400000, 16)), run("TestC11E2E", (2000, 4), (40000, 16))],
    "rule": "cases = (pattern, 3..8 inputs): patterns are generated from a grammar (ASCII / non-ASCII / \\x{..} literals, classes, "
            "alternations with shared prefixes, optional and repeated groups, captures, ^ $ \\A \\z \\b, global and scoped (?i)) or drawn "
            "from the @rx patterns of the bundled OWASP CRS (compiled rules read reflectively); inputs are sampled by walking the pattern's "
            "regexp/syntax tree (intended matches, other members of the case-fold orbit) and perturbed (byte deletion / substitution, case "
            "flip, long-s / Kelvin sign, newline insertion, prefix / suffix, upper-casing, random bytes); oracle = the real @rx operator built "
            "with the prefilter on vs off: same result and, with capture, same TX.0-9; a second run compares two WAFs differing only in "
            "SecRxPreFilter end to end; non-trivial = the prefilter-on operator carries a literal prefilter, minimum length or exact-match "
            "shortcut and the inputs produce both outcomes; distinct = distinct case encodings",
    "essential": {"all": ["pf:literal-prefilter", "pf:min-length", "pf:exact-match", "source:crs", "source:generated", "begin-anchor", "end-anchor",
                          "case-insensitive", "both-outcomes", "e2e-two-wafs"]},
    "assumptions": COMMON_ASSUME + [
        "the prefilter-off operator (plain regexp) is the reference; patterns rejected by Go's regexp parser must be rejected identically by both",
    ],
}

PROPS["C10"] = {
    "level": "exploration",
    "fuzz": [('FuzzC10', 120)],
    "runs": [run("TestC10Tx", (8000, 8), (150000, 16)), run("TestC10Buffer", (30000, 4), (500000, 8))],
    "rule": "transaction cases = (request|response side, limit 1..64, in-memory limit 1..limit, Reject|ProcessPartial, byte string whose length "
            "is biased to every threshold +-1, a partition into <=6 chunks, per chunk the entry point: slice write, reader with Len(), plain "
            "reader; the body reader is consumed with small Reads, io.ReadAll, io.Copy, or a few Reads followed by io.Copy), each run with the in-memory limit = limit, the drawn value, and 1 (spill) and compared with a reference model of the "
            "statement (returned (interruption, n, err), reader contents, REQUEST_BODY/RESPONSE_BODY, data-error flag, ARGS_POST, body phase "
            "ran once); buffer cases = write/reader/read/reset scripts on the bare BodyBuffer against a byte-slice model; non-trivial = total "
            "within +-1 of the limit, a chunk straddling it, or a multi-byte stored body (spill pair); distinct = distinct case encodings",
    "essential": {"all": ["total=limit-1", "total=limit", "total=limit+1", "chunk-straddles-limit", "partial-limit-reached", "rejected",
                          "spilled-to-disk", "side:resp", "entry:readplain", "entry:readlen", "buffer-spilled", "buffer-reset", "limit-lowered-by-ctl:req", "limit-lowered-by-ctl:resp",
                          "read-back:copy", "read-back:head-copy", "read-back:readall"]},
    "assumptions": COMMON_ASSUME + [
        "after a refusal the connector stops feeding the body (writes after a refused write are not generated)",
        "for the plain-reader path under Reject the bytes copied before the limit was detected may stay stored (prefix, <= limit)",
    ],
}

PROPS["C07"] = {
    "level": "exploration",
    "fuzz": [('FuzzC07', 240)],
    "runs": [run("TestC07", (12000, 10), (300000, 16))],
    "rule": "cases = configurations of 1..10 lines assembled from the complete vocabulary scraped from the working tree (every directive with "
            "plausible and hostile arguments; SecRule with every variable (key, regex key, count, negation), every operator (valid, empty "
            "and malformed arguments, macros naming any variable) and every action in every documented spelling (setvar flag/delete/"
            "arithmetic/macro keys, every ctl option with ids, ranges, VAR:key and VAR:/re/, ...); chains; SecDataset) with byte-level "
            "mutation of ~8% of the lines, x generated traffic (urlencoded / JSON / XML / multipart / raw bodies, valid and broken) driven "
            "through canonical and anomalous API scripts or ParseRequestReader; in half of the cases the request values are built from every "
            "decoder's escape alphabet (complete and truncated escapes, invalid UTF-8) and 1-3 rules run random transformation chains over "
            "everything the peer controls; one case in six uses small body limits, both limit actions and rules that move the limits / "
            "switch body access or the body processor in any phase; one case in six has SecIgnoreRuleCompilationErrors On with 1-3 rules the "
            "compiler refuses (disruptive chain member, unknown operator / transformation / action, bad pattern, chain left open), each "
            "followed by a directive naming the refused id again; under the limit dynamics a third of the scripts feed body bytes before the headers "
            "phases (and more through readers afterwards) and read a body reader obtained early a few bytes at a time between the other calls; one case in four also serves the request through the library's net/http "
            "middleware (twice), half of them with an always-matching rule carrying every disruptive action and usable / unusable status; bodies arrive in pieces through the slice and the reader entry "
            "points; anomalous scripts duplicate, drop, swap and move calls, add extra body writes and phase calls anywhere and keep using "
            "the handle after Close; oracle = recover() around NewWAF and every call, NewWAF "
            "returns exactly one of (waf, error), watchdog for hangs; non-trivial = the configuration was accepted and traffic was driven "
            "through it; distinct = distinct case encodings",
    "essential": {"all": ["accepted", "rejected-with-error", "rules-fired", "parse-request-reader", "act:setvar", "act:ctl", "op:rx", "op:pm",
                          "op:validateNid", "op:restpath", "dir:secruleremovebymsg", "dir:secruleupdatetargetbyid", "dir:secauditlogformat",
                          "hostile-values-through-transformation-chains", "body-limit-dynamics", "refused-rules-then-references-to-their-ids", "through-the-http-middleware"]},
    "vocab_complete": True,
    "assumptions": COMMON_ASSUME + [
        "@rbl, @geoLookup and SecRemoteRules (network I/O by design) are compiled but not driven with traffic; @inspectFile / exec name a non-existent program",
        "the process-wide pattern cache is reset before every case so that a failure is a function of the case alone (C13 covers cross-WAF effects)",
        "a case is reported as a hang only if it has not returned after 140 s",
    ],
}

PROPS["C04"] = {
    "level": "exploration",
    "runs": [run("TestC04", (2000, 10), (50000, 16))],
    "rule": "cases = rule sets and requests from the C01 (matching) and C09 (scoring) generators, biased to many values under few names, "
            "several rules sharing transformation prefixes over one collection, rules comparing against %{COLLECTION.key} (the first value "
            "stored under a repeated or case-variant name), optional SecArgumentsLimit below the number of arguments; in a third of the cases "
            "rules with regular-expression selectors written with capitals are added and, after the first fresh WAF, a second WAF holding the same "
            "rules with argument and header/cookie collections exchanged is created and kept open (the outcome may not depend on which WAFs "
            "were created before); one case in six carries a JSON body whose member names differ only in case; "
            "each case is executed 12 times (6 fresh WAFs, 6 consecutive transactions on one WAF) and the canonical outcomes (interruption, "
            "ordered fired ids, per-rule multiset of triples, TX map, HIGHEST_SEVERITY) must be identical; the runtime's map iteration order "
            "is the adversary; non-trivial = >=2 rules fire, >=1 transformation and a collection with >=3 entries and a repeated name",
    "essential": {"all": ["kind:matching", "kind:scoring", ">=3-entries-with-repeated-name", "argument-count-above-limit", "interrupted", "first-value-readers", "other-requests-in-between", "other-waf-created-in-between", "json-body-with-case-variant-names"]},
    "assumptions": COMMON_ASSUME + [
        "a divergence that occurs with probability p per run survives 12 repetitions with probability (1-p)^12",
        "order-sensitive effects (assigning %{MATCHED_VAR} over several matches) are not generated",
    ],
}

PROPS["C12"] = {
    "level": "exploration",
    "runs": [run("TestC12", (5000, 8), (100000, 16))],
    "rule": "cases = 2..6 rules (plus chain links) in one phase whose transformation lists are built from 1..3 shared prefixes drawn from "
            "the full transformation vocabulary, over overlapping targets (ARGS_GET next to ARGS_GET:a, ARGS next to ARGS|!ARGS:b, regex keys, "
            "counts, the same variable twice) and over targets whose content changes during the phase (MATCHED_VAR*, MATCHED_VARS, RULE:id, "
            "ENV, TX) x requests with repeated names; oracle = the same transaction against the same rules with a distinct identity "
            "transformation (registered through the plugin registry) prefixed to every list, which makes every chain id unique so nothing "
            "can be shared; fired ids, per-rule value multisets and per-rule hit counters must agree, 4 repetitions; non-trivial = two "
            "lists share their first transformation over overlapping collections, or a changing target is read twice",
    "essential": {"all": ["shared-prefix-over-overlapping-targets", "changing-target-read-twice", "reads:MATCHED_VAR", "reads:RULE", "reads:ENV",
                          "reads:MATCHED_VARS", "multimatch-control", ">=2-rules-fired", "plugin-sibling-transformations", "another-waf-closed-during-the-build"]},
    "assumptions": COMMON_ASSUME + [
        "MATCHED_VAR / MATCHED_VAR_NAME are read only after single-valued matches (after a multi-valued match 'the last match' depends on map order by design)",
        "the environment variable VERIF_C12 is set by the generated rules (process-wide by design)",
    ],
}

PROPS["C05"] = {
    "level": "exploration",
    "runs": [run("TestC05", (2000, 10), (60000, 16))],
    "rule": "cases = (configuration with tracers, state readers and 2..6 conditional state-leaving rules: every ctl option, skip / skipAfter "
            "(marker present or absent) / allow scopes, deny / drop / redirect, capture, setvar, severity, log flags), 1..3 predecessor "
            "transactions (bodies in memory, spilled to disk, JSON valid and broken, multipart upload; response bodies valid and broken; "
            "stopped after any API call, without ProcessLogging, closed twice) and an independent probe transaction; oracle = (a) the probe's "
            "full outcome on the used WAF equals the outcome on a fresh WAF of the same configuration, (b) the reflective dump of the recycled "
            "transaction object equals the dump of a brand-new one, (c) body readers obtained before Close yield nothing afterwards; "
            "non-trivial = the probe object is pointer-identical to a predecessor object (pool reuse measured, GC off) and a predecessor "
            "left residual state",
    "essential": {"all": ["pool-reuse-observed", "pred-truncated", "pred-no-logging", "pred-double-close", "pred-body-spilled", "readers-checked",
                          "residual:ctl-ruleEngine", "residual:ctl-ruleRemoveById", "residual:ctl-ruleRemoveTargetById", "residual:skipAfter-absent",
                          "residual:allow", "residual:deny", "residual:ctl-requestBodyLimit", "residual:ctl-responseBodyProcessor"]},
    "assumptions": COMMON_ASSUME + [
        "masked in the structural comparison: id, context, timestamps and time variables, logger, WAF pointer, stopwatch, the per-phase transformation cache (cleared at every phase start)",
        "setenv is not generated (process-wide by design)",
    ],
}

PROPS["C17"] = {
    "level": "exploration",
    "runs": [run("TestC17", (6000, 8), (120000, 16))],
    "rule": "cases = base rule sets of 3..7 rules (ids, up to two tags, messages, chains, exclusions, deny rules) + one directive: "
            "SecRuleRemoveById (ids, several ids, ranges) / ByTag / ByMsg, SecRuleUpdateTargetById (single, several, range; positive and "
            "negative targets; string and regex keys) / ByTag, SecRuleUpdateActionById (single, several, range; disruptive, status, "
            "setvar, transformation and logging actions), or a run-time ctl:ruleRemoveById/ByTag/ByMsg / ruleRemoveTargetById/ByTag/ByMsg "
            "placed at every position and phase, unconditional or conditional on the request; oracle = the same request through the "
            "directive form and through the configuration rewritten on the structured description must give the same fired ids, match "
            "data, counters and interruption; for conditional ctl a second transaction that does not execute it must equal the base "
            "configuration; non-trivial = the directive changes the outcome for that request",
    "essential": {"all": ["outcome-changed:removeById", "outcome-changed:removeByTag", "outcome-changed:removeByMsg", "outcome-changed:updTargetById",
                          "outcome-changed:updTargetByTag", "outcome-changed:updActionById", "outcome-changed:ctl", "several-ids", "id-range",
                          "regex-key-target", "positive-target", "chain-in-base", "second-transaction-checked", "ctl:ruleRemoveTargetByTag", "ctl:ruleRemoveByMsg",
                          "removal-with-skip-window", "outcome-changed:updTagCtl"]},
    "assumptions": COMMON_ASSUME + [
        "updates of id/phase are not generated (documented as unsupported); ctl keys are lower-case (C01 owns key case)",
    ],
}

PROPS["C13"] = {
    "level": "exploration",
    "runs": [run("TestC13", (4000, 4), (60000, 8), pair_variant="nomemo", pair_env="VERIF_C13_OUT")],
    "rule": "cases = histories of 4..10 operations {build WAF from configuration i, close WAF j, probe WAF j} over 2..4 configurations that "
            "reuse 1..2 strings in different roles (@pm S, regex key ARGS:/S/, ctl:...;ARGS:/S/, @restpath S, @validateNid us S, @rx S normal "
            "and binary, SecAuditLogRelevantStatus S, @pmFromDataset with different content under one name, @pmFromFile resolved against "
            "different root file systems, both SecRxPreFilter settings); oracle = every probe equals the same configuration built alone from "
            "an empty cache, construction succeeds exactly when it succeeds alone, no panic; and the per-case outcomes of the default build "
            "equal those of a second binary built with -tags coraza.no_memoize for the same seeds; non-trivial = two WAFs alive together and "
            "an equal string in two roles or different content under one name, with at least one probe",
    "essential": {"all": ["two-wafs-alive", "same-dataset-name-different-content", "same-file-name-different-root", "role:pm", "role:key-rx", "role:ctl-rx",
                          "role:restpath", "role:nid", "role:rx", "role:binary-rx", "role:status", "role:dataset", "role:file", "role:key-rx-case-insensitive", "role:schema", "texts-equal-after-case-folding"]},
    "assumptions": COMMON_ASSUME + [
        "rapid generates the same case sequence in both binaries for a given seed (verified per line by the case hash)",
    ],
}

PROPS["C03"] = {
    "level": "exploration",
    "fuzz": [('FuzzC03', 150)],
    "runs": [run("TestC03", (8000, 8), (200000, 16))],
    "rule": "cases = lists of 0..8 (name, value) byte strings (repeated and case-variant names, empty names and values, reserved characters, "
            "percent signs, non-UTF-8 bytes) placed in one carrier: query string and urlencoded body (hand-written encoder with a generated "
            "per-byte choice of raw / %XX / %xx / '+'), header set, one or several Cookie headers, multipart body with 0..3 files, JSON "
            "documents (nested objects / arrays, duplicate and dotted keys) with their documented flattening, XML documents (attributes and "
            "text); settings: SecArgumentsLimit 1..3 or 1000, body limit below/above the body with both limit actions, for JSON a depth "
            "limit of 1..4 (or the default) so that documents nested deeper than the limit occur with siblings after the deep part; unparseable variants "
            "(truncated, one delimiter dropped); oracle = round trip through probe rules (SecRule VAR @unconditionalMatch) as multisets of "
            "(key, value), with the statement's escape clause: a difference is accepted only when an error variable is set or the "
            "transaction is interrupted; non-trivial = repeated/case-variant name, empty name or value, delimiter byte in the data, body "
            "limit below the size, or unparseable input",
    "essential": {"all": ["carrier:query", "carrier:urlencoded", "carrier:headers", "carrier:cookies", "carrier:multipart", "carrier:json", "carrier:xml",
                          "dup-or-case-variant-name", "empty-name-or-value", "delimiter-byte-in-data", "body-limit-below-size:Reject",
                          "body-limit-below-size:ProcessPartial", "unparseable:json", "multipart-files", "error-flagged", "content-type-with-parameter", "uploads-sharing-a-file-name", "body-split-at-limit",
                          "json-depth-limit-flagged", "json-within-depth-limit", "xml-stray-closing-tag"]},
    "assumptions": COMMON_ASSUME + [
        "only data encodable in the carrier is generated (cookie names/values without ';' and surrounding blanks, multipart names without CR/LF/quote, control and non-ASCII bytes always percent-encoded in the request line)",
        "three known findings are excluded by construction while their witnesses still fail (arguments over the limit, colliding JSON keys, multipart without closing boundary)",
    ],
}

PROPS["C16"] = {
    "level": "exploration",
    "fuzz": [('FuzzC16', 180)],
    "runs": [run("TestC16", (3000, 10), (100000, 16))],
    "rule": "cases = 1..3 structured rule descriptions (1..3 targets over 15 variables with plain keys containing : , / = \" . and regex keys "
            "containing | , : ' \\/, counts, exclusions; 7 operators with arguments containing quotes, backslashes, commas, colons, pipes, "
            "non-UTF-8 bytes; up to 5 actions among msg / tag / logdata / setvar / t / severity / status / rev / ver / ctl / maturity / flags "
            "with values containing commas, colons and escaped quotes, optional quoting; disruptive action; chains of 1..3) rendered "
            "canonically and in 3..5 styles (letter case of directive and action names, indentation, comment and blank lines, backslash "
            "continuation between any two tokens or actions, optional quoting of id, splitting into included files); oracle = (a) the "
            "compiled rules read by reflection equal the description, (b) every style compiles to the same reflective dump as the canonical "
            "text, (c) near-miss texts (one structural quote deleted / duplicated, '|' deleted or duplicated between plain variables, "
            "duplicated or trailing comma, ':' of id deleted, blank before the operator deleted) are rejected; non-trivial = a delimiter of "
            "the enclosing syntax occurs inside a key, operator argument or action value",
    "essential": {"all": ["delimiter-in-key", "pipe-in-regex-key", "delimiter-in-operator-argument", "delimiter-in-action-value", "escaped-quote-in-action-value",
                          "chain", "line-continuation", "split-across-included-files", "near-miss:del-quote", "near-miss:dup-open-quote", "near-miss:del-pipe",
                          "near-miss:dup-pipe", "near-miss:dup-comma", "near-miss:trailing-comma", "near-miss:del-id-colon", "near-miss:del-blank", "near-miss:del-regex-close-slash",
                          "line-longer-than-64k", "text-ends-with-continuation", "quoted-key-same-rule", "nested-includes-in-different-directories"]},
    "assumptions": COMMON_ASSUME + [
        "the domain is what the grammar can carry: keys without blank, '|' and single quote; operator arguments without a backslash directly before a double quote or at the end, no leading/trailing blank, no line break; action values in which every single quote is escaped",
        "chain links receive the built-in phase-2 default actions when they have an action string (TODO in rule_parser.go), which the expectation reproduces",
    ],
}

PROPS["C18"] = {
    "level": "exploration",
    "runs": [run("TestC18", (8000, 8), (150000, 16))],
    "rule": "cases = (deny rule in phase 1-4 or none, deny status (including 99, 103 and 1000, which no final response can carry: refused, or answered with anything but a success), request / response body access (configured, or switched on by ctl:responseBodyAccess=On in phase 1-3), body limits 4..40 with both limit actions) x "
            "(request with or without the triggering header, body length below / at / above the limit, known or unknown length) x handler "
            "script (reads the body fully / partly / not at all; optional WriteHeader with 200/201/404/500/204/304; content type in or out of (and in other spellings of) "
            "the MIME list; extra header; body written in arbitrary chunks through Write and ReadFrom with interleaved Flush), driven through "
            "httptest.NewRecorder and, for one case in five, a real httptest server and client; in half of the cases the WAF has served another "
            "request before, and in a third that request's spill file was removed from the temporary directory while it was being served "
            "(what a tmp cleaner does), so that its clean-up meets an error; oracle = blocked in a request phase: "
            "handler never invoked, deny status (413 for a rejected body), empty body; blocked in a response phase: no handler byte reaches "
            "the client, deny status (500 for a rejected response body); otherwise the handler reads exactly the client's bytes and the "
            "client receives exactly the handler's status, headers and body; non-trivial = body size within +-1 of a limit, >=2 writes with a "
            "flush between them, or any block",
    "essential": {"all": ["blocked-in-request-phase", "request-body-limit-reject", "blocked-late", "passed-through", "request-body-at-limit",
                          "response-body-at-limit", "writes-with-flush-between", "partial-request-body-spliced", "partial-response-body-released",
                          "real-server", "chunked-request", "no-body-status", "implicit-write-header", "file-reader-on-real-server", "blocked-by-redirect", "blocked-by-drop", "blocked-late-by-redirect", "informational-response-first", "silent-handler",
                          "after-another-request", "predecessor-spill-file-removed", "unusable-status-refused",
                          "response-body-access-switched-on-by-ctl", "content-type-in-another-spelling"]},
    "assumptions": COMMON_ASSUME + [
        "a redirect is expected to answer with the interruption's status (302 unless the rule names 301/307) and the target in Location; a drop, which "
        "has no status of its own, with anything but a success status and none of the handler's output",
        "a phase-4 rule is expected to act only when the response body is accessible and its MIME type selected (otherwise the middleware never runs that phase)",
        "hijacked connections are out of scope",
    ],
}

PROPS["C19"] = {
    "level": "exploration",
    "runs": [run("TestC19", (8000, 8), (200000, 14)), run("TestC19Conc", (60, 2), (1500, 4)),
             run("TestC19Conc", (30, 2), (1500, 4), variant="race", env=RACE_ENV)],
    "rule": "cases = audit engine On|Off|RelevantOnly (configured, optionally switched by ctl:auditEngine) x relevant-status pattern x any "
            "valid part subset (optionally changed by ctl:auditLogParts +X / -X / absolute) x format JSON|Native|JsonLegacy|OCSF x 1..5 rules "
            "with every combination of log / nolog / auditlog / noauditlog, single- and multi-valued, conditional or not, optional deny with "
            "a status, x engine On|DetectionOnly x response status x hostile bytes (newlines, quotes, invalid UTF-8, text shaped like a "
            "section boundary) in headers, body and messages; a capturing writer registered through the plugin API records every audit "
            "record; oracle = record count per the decision table (status source: real or would-be interruption, else response), record "
            "carries the transaction id and exactly the configured parts, lists exactly the fired audit-enabled rules, is well-formed (one "
            "parsable JSON line / native sections A..Z with one boundary id), error callback once per fired log-enabled rule; the "
            "concurrent run has 2..8 goroutines log through one serial, concurrent or HTTPS writer (an in-process collector) and parses the "
            "shared file / the received POST bodies back (exactly one intact record per transaction; for the HTTPS writer, whose client gives "
            "up after 1 s, a missing record is tolerated but a damaged, foreign or repeated one is not), also under the race detector; "
            "non-trivial = RelevantOnly or a ctl switch or hostile bytes logged or log/audit flags that differ",
    "essential": {"all": ["audit:On", "audit:Off", "audit:RelevantOnly", "records:0", "records:1", "format:JSON", "format:Native", "format:OCSF", "format:JsonLegacy",
                          "ctl-auditEngine", "ctl-auditLogParts:+", "ctl-auditLogParts:-", "interrupted", "would-be-interruption-status", "log-and-audit-flags-differ",
                          "hostile-bytes-logged", "multi-value-rule", "concurrent:Serial/JSON", "concurrent:Serial/Native", "concurrent:Concurrent/JSON", "concurrent:HTTPS/JSON", "concurrent:HTTPS/Native", "after-another-transaction", "response-body-reaches-its-limit"]},
    "assumptions": COMMON_ASSUME + [
        "ProcessLogging is called exactly once per transaction (precondition of the statement); RelevantOnly is always configured with a pattern",
        "native records are delimited by their own random boundary id: logged data that merely looks like a boundary is content",
    ],
}


PROPS["C06"] = {
    "level": "exploration",
    "runs": [run("TestC06", (12, 3), (250, 6), variant="race", env=RACE_ENV, shrinktime="1s"),
             run("TestC06", (4, 1), (120, 4), variant="racemp", env=RACE_ENV, tiers=("thorough",), shrinktime="1s")],
    "cap_s": {"quick": 900, "thorough": 7200},
    "replay_variant": "race",
    "rule": "cases = generated configuration (rules sharing transformation chains, @pm / @rx / @restpath, a rule with >=3 static exclusions, "
            "ctl:ruleRemoveTargetById hitting it, chains, setvar counters, a threshold deny rule, JSON audit log through one serial writer) "
            "and workload: 2..16 goroutines x 5..40 transactions each on one shared WAF over 2..5 requests, 0..2 goroutines building and "
            "closing further WAFs of the same configuration meanwhile, GOMAXPROCS in {2,4,16}; binary built with -race (thorough: also with "
            "-tags coraza.rule.multiphase_evaluation); oracle = no race report (GORACE halt_on_error), no panic, no deadlock (120 s), every "
            "concurrent transaction's canonical outcome equals the outcome of the same request run alone on a fresh WAF, and the shared serial "
            "audit log holds one whole JSON record per line and one line per transaction; non-trivial = at "
            "least two transactions were in flight together (measured)",
    "essential": {"all": ["overlap-observed", "rule-with-spare-exception-capacity", "runtime-target-exclusion", "shared-pm", "chain", "concurrent-waf-builds", "audit-index-write-fails", "logger-with-context-fields", "shared-serial-audit-log-checked"]},
    "assumptions": COMMON_ASSUME + [
        "the Go scheduler is not controlled: the race detector reports happens-before violations on the paths the workload drives, not on all interleavings",
        "a data race aborts the process; the workload being run is written to disk first and becomes the replay file together with the shard log",
        "mutating a WAF after construction and setenv are out of scope (documented as unsupported / process-wide)",
    ],
}

PROPS["C20"] = {
    "level": "fault_enumeration",
    "runs": [run("TestC20Early", (3000, 6), (60000, 8)), run("TestC20Faults", (3, 4), (12, 8), shrinktime="1s"), run("TestC20Reader", (400, 1), (4000, 2))],
    "cap_s": {"quick": 900, "thorough": 7200},
    "rule": "scenarios = body none / in memory / spilled to disk (written in two pieces or in one, so that the spill file is created while the buffer is empty) / larger than a small body limit and written in pieces (one of them ending "
            "exactly at the limit in half of the cases; Reject and ProcessPartial; the excess must show as an interruption, an error "
            "variable or a log entry) / multipart with 0..3 uploads x SecUploadKeepFiles Off|On|RelevantOnly x audit "
            "Off|Serial|Concurrent x deny in phase 0-4 x logging rule x response body; (a) early termination: the API script is stopped "
            "after every prefix, then Close (in process); (b) fault enumeration: the scenario runs in a child process under strace; a "
            "three core scenarios (three uploads + serial audit, two uploads + concurrent audit, spilled body + deny) are enumerated in "
            "every run besides the drawn ones; a recording run lists every openat / write / pwrite64 / read / pread64 / close / unlinkat / mkdirat on a body spill file, an "
            "upload file or the audit directory, then the scenario is re-run once per listed call with exactly that call failing (EACCES / "
            "ENOSPC / EIO); an injection counts only if strace reports exactly one injected call, before the transaction is closed, on the "
            "same (normalised) path as recorded; oracle = no panic, the failure is visible (returned error, error variable, error-level "
            "debug log entry or interruption), no temporary file left after Close except what upload retention keeps (and the target of a "
            "failing unlink), file descriptors back to the baseline, a following transaction on the same WAF behaves normally; (c) requests handed "
            "over as a byte stream (ParseRequestReader) with body lines of 1..200000 bytes: either an error / interruption / error variable, or the "
            "transaction holds every byte sent; "
            "non-trivial = at least one aligned injection (faults) / a scenario with files stopped at or after the third call (early)",
    "essential": {"all": ["body:spill", "body:multipart", "uploads", "keep:On", "keep:RelevantOnly", "interrupted", "body-over-limit:Reject",
                          "body-over-limit:ProcessPartial", "write-ends-exactly-at-limit", "core-scenario", "fault:unlinkat", "fault:openat", "fault:write", "multipart-without-announced-boundary",
                          "spill-file-created-for-the-first-write", "reader-body-line-longer-than-64k", "reader-failure-surfaced", "reader-body-complete"]},
    "assumptions": COMMON_ASSUME + [
        "strace -e inject counts 'when=N' per traced thread; misaligned runs are detected after the fact and discarded (counted in coverage.extra)",
        "faults on the writability probe files (checkfsfile*) NewWAF creates are out of scope; a failed read at end of file is not a fault (no data)",
        "fsync and faults in directories coraza does not own are excluded",
    ],
}
