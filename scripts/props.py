"""Per-property run configuration for the ./verif driver.

Each property has one or more *runs*: a rapid test function in the harness binary, the number
of cases per shard and the number of shard processes for each tier, and the build variant.
"""


def run(test, quick, thorough, variant="default", tiers=("quick", "thorough"), **kw):
    """quick/thorough = (checks per shard, shards)"""
    d = {
        "test": test,
        "checks": {"quick": quick[0], "thorough": thorough[0]},
        "shards": {"quick": quick[1], "thorough": thorough[1]},
        "variant": variant,
        "tiers": tiers,
    }
    d.update(kw)
    return d


COMMON_ASSUME = [
    "rapid v1.3.0 generators and shrinking; Go toolchain and race detector as installed",
    "the harness is compiled against /repo's working tree through a replace directive (internal packages imported by path)",
    "generated-input search never proves absence: the claim covers only the cases generated, counted above",
]

PROPS = {}

PROPS["C14"] = {
    "level": "exploration",
    "runs": [
        run("TestC14Direct", (60000, 4), (1500000, 16)),
        run("TestC14Rule", (4000, 4), (150000, 16)),
    ],
    "rule": "cases = (registered transformation name scraped from the tree, byte string of length 0..64 built from "
            "escape-alphabet fragments, truncated escapes, runs and raw bytes) for direct calls, and (list of 1..4 "
            "transformations, byte string) evaluated through a real rule with and without multiMatch; a direct case is "
            "non-trivial when the input contains a byte of that transformation's trigger alphabet (the slow path runs), a "
            "rule case when some transformation changed the value; distinct = distinct (name, input) / case encodings",
    "essential": {"all": ["truncated-escape-at-end", "multimatch>=3-values"]},
    "assumptions": COMMON_ASSUME + [
        "crypto/md5, crypto/sha1, strconv as the standard definitions; ASCII definition of lower/upper case on ASCII inputs only",
    ],
}
