#!/bin/bash
# usage: scripts/sweep.sh <tier> <parallel> <seed>...   - runs every property's check at the given seeds with
# evidence and replays redirected to a scratch directory; prints one line per (property, seed) with the exit code.
# Used to confirm that the checks stay silent on the unchanged tree under load and at several seeds.
tier=$1; par=$2; shift 2
out=/verif/.work/sweep-out; mkdir -p $out
for seed in "$@"; do
  for p in $(cd /verif && ./verif list | awk '{print $1}' | grep '^C[0-9][0-9]$'); do echo "$p $seed"; done
done | xargs -P "$par" -L 1 sh -c 'p=$0; s=$1; VERIF_SEED=$s VERIF_OUTDIR='$out'/$p-$s VERIF_WORK=/verif/.work /verif/verif check $p --tier '$tier' > '$out'/$p-$s.log 2>&1; echo "$p seed=$s exit=$? $(grep -c "^VIOLATION" '$out'/$p-$s.log) violations $(tail -1 '$out'/$p-$s.log | grep -o "wall=.*")"'
