#!/bin/bash
# usage: scripts/mutant.sh <name> <patch-file|-e sed-expr file> <PROP> [tier]
# Applies a change to a scratch worktree of /repo (outside /repo and /verif), runs the check
# against it with evidence/replays redirected to a scratch directory, reports DETECTED / MISSED,
# and removes the worktree and its build output.
set -u
name=$1; shift
wt=/tmp/vmut-$name-$$
out=/tmp/vmut-out-$name-$$
git -C /repo worktree add -q --detach "$wt" HEAD || exit 2
if [ "$1" = "-e" ]; then
  expr=$2; file=$3; shift 3
  sed -i -E "$expr" "$wt/$file"
  if git -C "$wt" diff --quiet; then echo "MUTANT $name: sed changed nothing"; git -C /repo worktree remove --force "$wt"; exit 2; fi
else
  patch=$1; shift
  git -C "$wt" apply "$patch" || { echo "MUTANT $name: patch does not apply"; git -C /repo worktree remove --force "$wt"; exit 2; }
fi
prop=$1; tier=${2:-quick}
mkdir -p "$out"
VERIF_REPO=$wt VERIF_OUTDIR=$out VERIF_WORK=/verif/.work/mut-$name-$$ /verif/verif check "$prop" --tier "$tier" > "$out/log" 2>&1
rc=$?
if [ $rc -eq 1 ] && ! grep -q '^VIOLATION property=' "$out/log"; then rc=2; fi
if [ $rc -eq 1 ]; then echo "MUTANT $name on $prop: DETECTED ($(grep -m1 -E 'failure in|REPLAY-FAIL|process crash' "$out/log" | cut -c1-220))";
elif [ $rc -eq 0 ]; then echo "MUTANT $name on $prop: MISSED"; else echo "MUTANT $name on $prop: INCONCLUSIVE rc=$rc"; tail -5 "$out/log"; fi
git -C /repo worktree remove --force "$wt"
# SAVE_REPLAY=<file name>: keep the (first) failing case as a regression replay of the property
if [ -n "${SAVE_REPLAY:-}" ] && [ $rc -eq 1 ]; then f=$(ls "$out"/replays/$prop/fail-*.json 2>/dev/null | head -1); [ -n "$f" ] && cp "$f" "/verif/replays/$prop/$SAVE_REPLAY" && echo "saved replays/$prop/$SAVE_REPLAY"; fi
[ -n "${KEEP:-}" ] && cp "$out/log" /tmp/mutlog-$name.txt; rm -rf "$out" /verif/.work/mut-$name-$$

exit 0
