#!/bin/bash
# usage: scripts/seeded_confirm.sh <ID> <dir with patch.diff demo_test.go meta.json>
# Confirms, in a fresh scratch worktree of /repo, that the seeded change compiles, passes the existing
# suite, and that its demonstration fails with the change and passes without it. Prints CONFIRMED / REJECTED.
set -u
id=$1; src=$2
wt=/tmp/conf-$id-$$
export GOFLAGS=-mod=mod GOPROXY=off GOWORK=off
git -C /repo worktree add -q --detach "$wt" HEAD || exit 2
cleanup() { git -C /repo worktree remove --force "$wt" >/dev/null 2>&1; }
trap cleanup EXIT
# where does the demo go?
rel=$(head -5 "$src/demo_test.go" | grep -oE '[A-Za-z0-9_./-]+_test\.go' | head -1)
[ -z "$rel" ] && rel=seeded_demo_test.go
mkdir -p "$wt/$(dirname "$rel")"
cp "$src/demo_test.go" "$wt/$rel"
pkg=./$(dirname "$rel")
# exactly the tests of the demonstration file
race=""; case "$id" in C06*) race="-race";; esac   # concurrency seeds: the demonstration may need the race detector
tests="^($(grep -oE '^func (Test[A-Za-z0-9_]+)' "$src/demo_test.go" | awk '{print $2}' | paste -sd'|'))\$"
echo "demo at $rel (package $pkg) tests $tests"
(cd "$wt" && go test $race -vet=off -count=1 -run "$tests" "$pkg" > /tmp/conf-$id-before.log 2>&1); rc_before=$?
git -C "$wt" apply "$src/patch.diff" || { echo "REJECTED $id: patch does not apply"; exit 1; }
(cd "$wt" && go build ./... > /tmp/conf-$id-build.log 2>&1) || { echo "REJECTED $id: does not compile"; exit 1; }
(cd "$wt" && go test $race -vet=off -count=1 -run "$tests" "$pkg" > /tmp/conf-$id-after.log 2>&1); rc_after=$?
rm -f "$wt/$rel"
(cd "$wt" && go test -vet=off -count=1 ./... > /tmp/conf-$id-suite.log 2>&1)
# packages that failed (other than internal/auditlog, whose two init tests fail on the unmodified tree) are
# re-run alone, twice: only a package that fails again counts (http/e2e and the audit HTTP tests time out under load)
fails=""
for p in $(grep -E '^FAIL[[:space:]]+github.com' /tmp/conf-$id-suite.log | awk '{print $2}' | grep -v 'internal/auditlog$'); do
  rel=./${p#github.com/corazawaf/coraza/v3/}; [ "$rel" = "./github.com/corazawaf/coraza/v3" ] && rel=.
  ok=0
  for try in 1 2; do (cd "$wt" && go test -vet=off -count=1 "$rel" >> /tmp/conf-$id-suite-retry.log 2>&1) && { ok=1; break; }; done
  [ $ok -eq 1 ] || fails="$fails $p"
done
# internal/auditlog: anything beyond the two known failures?
al=$(grep -E '^--- FAIL' /tmp/conf-$id-suite.log | grep -v 'TestConcurrentWriterFailsOnInit\|TestSerialWriterFailsOnInitForUnexistingFile' | awk '{print $3}' | sort -u)
if [ -n "$al" ]; then
  (cd "$wt" && go test -vet=off -count=1 ./internal/auditlog/... > /tmp/conf-$id-auditlog.log 2>&1)
  al2=$(grep -E '^--- FAIL' /tmp/conf-$id-auditlog.log | grep -v 'TestConcurrentWriterFailsOnInit\|TestSerialWriterFailsOnInitForUnexistingFile' | awk '{print $3}' | sort -u | tr '\n' ' ')
  # only tests of the auditlog package matter here; others were handled by the package retry above
  for t in $al2; do grep -q "^--- FAIL: $t" /tmp/conf-$id-auditlog.log && fails="$fails auditlog:$t"; done
fi
rc_crs=1
for try in 1 2; do (cd "$wt/testing/coreruleset" && go test -vet=off -count=1 ./... > /tmp/conf-$id-crs.log 2>&1) && { rc_crs=0; break; }; done
echo "demo without change: rc=$rc_before ; with change: rc=$rc_after ; suite extra failures: [${fails}] ; crs rc=$rc_crs"
if [ $rc_before -eq 0 ] && [ $rc_after -ne 0 ] && [ -z "$fails" ] && [ $rc_crs -eq 0 ]; then echo "CONFIRMED $id"; else echo "REJECTED $id"; fi
